#!/venv/bin/python
"""Quietness under behaviour-preserving changes: apply each variant (a textual replacement that keeps the documented
behaviour: another exception type, another but equivalent formula, another internal order) to a scratch copy of
/repo under /dev/shm and run the named checks against it (VSIM_REPO); every check must exit 0 without a VIOLATION line.
usage: selftest/benign.py [variant-id ...]      (variants: selftest/benign/benign.json)"""
import json, os, shutil, subprocess, sys, time
V = os.path.dirname(os.path.dirname(os.path.abspath(__file__)))
def main():
    vs = json.load(open(os.path.join(V, "selftest/benign/benign.json")))
    want = sys.argv[1:]
    scratch = "/dev/shm/vsim_benign_%d" % os.getpid()
    bad = 0
    try:
        for m in vs:
            if want and m["id"] not in want:
                continue
            shutil.rmtree(scratch, ignore_errors=True)
            os.makedirs(scratch)
            subprocess.run(["cp", "-r", "/repo/pyerrors", scratch + "/pyerrors"], check=True)
            subprocess.run(["cp", "-r", "/repo/examples", scratch + "/examples"], check=True)
            p = os.path.join(scratch, m["file"])
            s = open(p).read()
            if s.count(m["old"]) != 1:
                print((m["id"], "PATCH-FAILED (%d matches)" % s.count(m["old"])), flush=True)
                bad += 1
                continue
            open(p, "w").write(s.replace(m["old"], m["new"]))
            for prop in m["props"]:
                t = time.time()
                env = dict(os.environ, VSIM_REPO=scratch, VSIM_NO_EVIDENCE="1", VSIM_MIN_BUDGET_S="3")
                r = subprocess.run([os.path.join(V, "bin/check"), prop, "quick"], env=env, capture_output=True, text=True)
                viol = [l for l in r.stdout.splitlines() if l.startswith("  clause")]
                ok = r.returncode == 0 and "VIOLATION" not in r.stdout
                bad += 0 if ok else 1
                print((m["id"], prop, "QUIET" if ok else "FALSE-ALARM (exit %d)" % r.returncode, round(time.time() - t, 1), viol[:2]), flush=True)
    finally:
        shutil.rmtree(scratch, ignore_errors=True)
    print("benign variants: %s" % ("all quiet" if bad == 0 else "%d false alarms / failures" % bad))
    sys.exit(1 if bad else 0)
main()
