#!/venv/bin/python
"""debug helper: execute a replay file's plan in-process (no fork), printing violations; optional pdb-free traceback.
usage: PYTHONPATH=/repo:/verif selftest/runplan.py <replay.json>"""
import importlib, json, sys, os, tempfile
sys.path[:0] = ["/repo", os.path.dirname(os.path.dirname(os.path.abspath(__file__)))]
os.environ.setdefault("MPLBACKEND", "Agg")
from vsim import kernel
rep = json.load(open(sys.argv[1]))
mod = importlib.import_module("vsim.props." + rep["property"].lower())
d = tempfile.mkdtemp(prefix="vsim_dbg", dir="/dev/shm")
ctx = kernel.Ctx(mod.PROP, rep.get("tier", "quick"), d)
ctx.clients = {}
mod.execute(rep["plan"], ctx)
for v in ctx.violations:
    print(v)
import shutil; shutil.rmtree(d, ignore_errors=True)
