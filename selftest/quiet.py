#!/venv/bin/python
"""Quiet-on-the-unchanged-tree self-test: every check at quick tier under N different VERIF_SEEDs must exit 0.
usage: selftest/quiet.py [N=12] [prop ...]"""
import os, subprocess, sys
V = os.path.dirname(os.path.dirname(os.path.abspath(__file__)))
n = int(sys.argv[1]) if len(sys.argv) > 1 else 12
props = sys.argv[2:] or ["c03", "c04", "c11", "c12", "c13", "c14", "c17", "c18"]
bad = []
for p in props:
    for seed in range(1, n + 1):
        env = dict(os.environ, VERIF_SEED=str(seed), VSIM_NO_EVIDENCE="1")
        r = subprocess.run([os.path.join(V, "bin/check"), p, "quick"], env=env, capture_output=True, text=True)
        last = r.stdout.strip().splitlines()[-1] if r.stdout.strip() else ""
        print(p, seed, "exit", r.returncode, last[:150], flush=True)
        if r.returncode != 0:
            bad.append((p, seed))
            print(r.stdout[-1500:], flush=True)
print("quiet:", "FAILED %r" % bad if bad else "ok")
sys.exit(1 if bad else 0)
