#!/venv/bin/python
"""Stub validation (DESIGN 2.8/2): independent parsers that follow exactly the layouts of vsim/world_files/formats.py
must consume the repository's stored sample files byte for byte, and the numbers they extract (after the documented
reduction) must equal what the REAL reader returns for those files.  Also checks the sfcf text layout assumptions."""
import os, struct, sys
sys.path[:0] = ["/repo", os.path.dirname(os.path.dirname(os.path.abspath(__file__)))]
os.environ.setdefault("MPLBACKEND", "Agg")
import numpy as np
import pyerrors as pe
D = "/repo/tests/data/openqcd_test"
bad = 0
def check(name, cond, msg=""):
    global bad
    print(("ok   " if cond else "FAIL ") + name + (" " + msg if not cond else ""))
    bad += 0 if cond else 1

# ---- rwms 1.6 (sfqcdr1.rwms.dat): int nrw; int nfct[nrw]; int nsrc[nrw]; per cfg: int cfg; for i: for j<nfct: sqn[nsrc], lnr[nsrc]
b = open(D + "/sfqcdr1.rwms.dat", "rb").read()
nrw = struct.unpack_from("i", b, 0)[0]
nfct = struct.unpack_from("%di" % nrw, b, 4)
nsrc = struct.unpack_from("%di" % nrw, b, 4 + 4 * nrw)
pos = 4 + 8 * nrw
cfgs, vals = [], [[] for _ in range(nrw)]
while pos < len(b):
    cfgs.append(struct.unpack_from("i", b, pos)[0]); pos += 4
    for i in range(nrw):
        f = 1.0
        for j in range(nfct[i]):
            pos += 8 * nsrc[i]
            lnr = struct.unpack_from("%dd" % nsrc[i], b, pos); pos += 8 * nsrc[i]
            f *= np.mean(np.exp(-np.asarray(lnr)))
        vals[i].append(f)
check("rwms1.6 layout consumes the sample file exactly", pos == len(b), "%d vs %d" % (pos, len(b)))
r = pe.input.openQCD.read_rwms(D, "sfqcd", version="1.6", postfix="rwms")
check("rwms1.6 numbers equal the real reader's", all(np.allclose(r[i].deltas["sfqcd|r1"] + r[i].r_values["sfqcd|r1"], vals[i], rtol=1e-14) for i in range(nrw)))

# ---- rwms 2.0 (openqcd2r1.ms1.dat)
b = open(D + "/openqcd2r1.ms1.dat", "rb").read()
nrw = struct.unpack_from("i", b, 0)[0] // 2
nfct = struct.unpack_from("%di" % nrw, b, 4)
nsrc = struct.unpack_from("%di" % nrw, b, 4 + 4 * nrw)
zero = struct.unpack_from("i", b, 4 + 8 * nrw)[0]
pos = 8 + 8 * nrw
cfgs, vals = [], [[] for _ in range(nrw)]
while pos < len(b):
    cfgs.append(struct.unpack_from("i", b, pos)[0]); pos += 4
    for i in range(nrw):
        for which in range(2):
            d = struct.unpack_from("i", b, pos)[0]; pos += 4
            n = struct.unpack_from("%di" % d, b, pos); pos += 4 * d
            size = struct.unpack_from("i", b, pos)[0]; pos += 4
            assert d == 2 and size == 8
            dat = struct.unpack_from("%dd" % (n[0] * n[1]), b, pos); pos += 8 * n[0] * n[1]
        f = 1.0
        for j in range(n[0]):
            row = dat[j * n[1]:(j + 1) * n[1]][::2]
            f *= np.mean(np.exp(-np.asarray(row)))
        vals[i].append(f)
check("rwms2.0 layout consumes the sample file exactly", pos == len(b) and zero == 0 and n == (nfct[-1], 2 * nsrc[-1]), "%d vs %d n=%r nfct=%r nsrc=%r" % (pos, len(b), n, nfct, nsrc))
r = pe.input.openQCD.read_rwms(D, "openqcd2r1", version="2.0", files=["openqcd2r1.ms1.dat"], names=["openqcd2|r1"])
check("rwms2.0 numbers equal the real reader's", all(np.allclose(r[i].deltas["openqcd2|r1"] + r[i].r_values["openqcd2|r1"], vals[i], rtol=1e-14) for i in range(nrw)))

# ---- .ms.dat
b = open(D + "/openqcd2r1.ms.dat", "rb").read()
dn, nn, tmax = struct.unpack_from("iii", b, 0)
eps = struct.unpack_from("d", b, 12)[0]
pos = 20
blk = 8 * tmax * (nn + 1)
recs = []
while pos < len(b):
    tr = struct.unpack_from("i", b, pos)[0]; pos += 4
    W = struct.unpack_from("%dd" % (tmax * (nn + 1)), b, pos); pos += blk
    Y = struct.unpack_from("%dd" % (tmax * (nn + 1)), b, pos); pos += blk
    Q = struct.unpack_from("%dd" % (tmax * (nn + 1)), b, pos); pos += blk
    recs.append((tr, W, Y, Q))
check(".ms.dat layout consumes the sample file exactly", pos == len(b), "%d vs %d" % (pos, len(b)))
E = pe.input.openQCD._extract_flowed_energy_density(D, "openqcd2r1", 3, 0, 4, files=["openqcd2r1.ms.dat"], names=["o|r1"])
keys = sorted(E)
ok = len(keys) == nn + 1 and all(keys[n] == n * dn * eps for n in range(nn + 1))
mine = {n: [np.mean(rec[2][n * tmax:(n + 1) * tmax]) / 4 ** 3 for rec in recs if rec[0] % 3 == 0] for n in range(nn + 1)}
ok2 = all(np.allclose(E[keys[n]].deltas["o|r1"] + E[keys[n]].r_values["o|r1"], mine[n], rtol=1e-13) for n in range(nn + 1))
check(".ms.dat flow times n*dn*eps and Ysl block index n*tmax+x0 equal the real reader's", ok and ok2)

# ---- .gfms.dat
b = open(D + "/sfqcdr1.gfms.dat", "rb").read()
zthfl, ncs, tmax = struct.unpack_from("<iii", b, 0)
L = struct.unpack_from("<iii", b, 12)
tol, cmax = struct.unpack_from("<dd", b, 24)
pos = 40
nobs = 16 if zthfl == 2 else 8
recs = []
while pos < len(b):
    tr = struct.unpack_from("i", b, pos)[0]; pos += 4
    obs = []
    for j in range(ncs + 1):
        oj = []
        for i in range(nobs):
            oj.append(struct.unpack_from("%dd" % tmax, b, pos)); pos += 8 * tmax
        obs.append(oj)
    recs.append((tr, obs))
check(".gfms.dat layout consumes the sample file exactly", pos == len(b) and L[0] == L[1] == L[2], "%d vs %d" % (pos, len(b)))
for zf, off in ((True, 0), (False, 8)):
    q = pe.input.openQCD.read_qtop(D, "sfqcd", c=0.3, version="sfqcd", Zeuthen_flow=zf)
    j = round(0.3 / (cmax / ncs))
    mine = [sum(rec[1][j][off]) for rec in recs]
    check(".gfms.dat charge (Zeuthen=%s): slot %d, flow index %d equal the real reader's" % (zf, off, j), np.allclose(q.deltas["sfqcd|r1"] + q.r_values["sfqcd|r1"], mine, rtol=1e-13) and q.tag == {"T": tmax - 1, "L": L[0]})

# ---- ms5_xsf
names = ["gS", "gP", "gA", "gV", "gVt", "lA", "lV", "lVt", "lT", "lTt"]
b = open(D + "/ms5_xsf_T24L16r1.ms5_xsf_dd.dat", "rb").read()
tmax, bnd = struct.unpack_from("ii", b, 32)
pos = 40
chunk = 4 + 16 * tmax * 10 + 32
recs = []
while pos < len(b):
    a = struct.unpack_from("=i" + "d" * (20 * tmax + 4), b, pos); pos += chunk
    recs.append(a)
check("ms5_xsf layout consumes the sample file exactly", pos == len(b), "%d vs %d" % (pos, len(b)))
c = pe.input.openQCD.read_ms5_xsf(D, "ms5_xsf_T24L16", "dd", "gA", files=["ms5_xsf_T24L16r1.ms5_xsf_dd.dat"], names=["x|r1"])
k = names.index("gA")
mine_re = [[a[1 + 2 * tmax * k + 2 * t] for a in recs] for t in range(tmax)]
mine_im = [[a[1 + 2 * tmax * k + 2 * t + 1] for a in recs] for t in range(tmax)]
ok = all(np.allclose(c.content[t][0].real.deltas["x|r1"] + c.content[t][0].real.r_values["x|r1"], mine_re[t], rtol=1e-13) and
         np.allclose(c.content[t][0].imag.deltas["x|r1"] + c.content[t][0].imag.r_values["x|r1"], mine_im[t], rtol=1e-13) for t in range(tmax))
check("ms5_xsf slot order and (re, im) interleaving equal the real reader's; idl = stored configuration numbers", ok and list(c.content[0][0].real.idl["x|r1"]) == [a[0] for a in recs])

# ---- sfcf text layout: the stub's block writer reproduces the stored sample blocks verbatim
from vsim.world_files import formats
txt = open("/repo/tests/data/sfcf_test/data_o/test_r0/cfg1/f_A").read()
blocks = txt.split("[correlator]\n")[1:]
first = blocks[0].split("\n")
dl = [l for l in first if len(l.split()) == 3 and l.split()[0].isdigit()]
vals = [(float(l.split()[1]), float(l.split()[2])) for l in dl]
mine = formats.sfcf_block({"name": "f_A", "quarks": "lquark lquark", "off": 0, "wf": 0, "type": "bi"}, vals)
check("sfcf bi block text identical to the stored sample", mine == "[correlator]\n" + blocks[0], repr(mine[:80]))
txt = open("/repo/tests/data/sfcf_test/data_o/test_r0/cfg1/f_1").read()
blocks = txt.split("[correlator]\n")[1:]
l = [x for x in blocks[0].split("\n") if x.startswith("+") or x.startswith("-")][0].split()
mine = formats.sfcf_block({"name": "f_1", "quarks": "lquark lquark", "off": 0, "wf": 0, "wf2": 0, "type": "bb"}, [(float(l[0]), float(l[1]))])
check("sfcf bb block text identical to the stored sample", mine == "[correlator]\n" + blocks[0], repr(mine[-80:]))
check("sfcf [run] header identical to the stored sample (up to the data_name line)", txt.startswith((formats.SFCF_RUN % "/unity")[:-1].rsplit("data_name", 1)[0]))
print("stub validation:", "FAILED" if bad else "ok")
sys.exit(1 if bad else 0)
