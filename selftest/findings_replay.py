#!/venv/bin/python
"""Replays every stored finding (findings/*.json, recorded before the corresponding fix) twice: against a worktree of
the ORIGINAL commit (must reproduce the violation) and against /repo as it is (must not).
usage: selftest/findings_replay.py [<original tree, default: a temporary git worktree of the root commit under /dev/shm>]"""
import glob, os, subprocess, sys
V = os.path.dirname(os.path.dirname(os.path.abspath(__file__)))
def main():
    orig = sys.argv[1] if len(sys.argv) > 1 else None
    made = None
    if orig is None:
        root = subprocess.run(["git", "-C", "/repo", "rev-list", "--max-parents=0", "HEAD"], capture_output=True, text=True).stdout.split()[0]
        made = "/dev/shm/vsim_orig_%d" % os.getpid()
        subprocess.run(["git", "-C", "/repo", "worktree", "add", "--detach", made, root], check=True, capture_output=True)
        orig = made
    bad = 0
    try:
        for f in sorted(glob.glob(os.path.join(V, "findings", "*.json"))):
            a = subprocess.run([os.path.join(V, "bin/replay"), f], env=dict(os.environ, VSIM_REPO=orig), capture_output=True, text=True)
            b = subprocess.run([os.path.join(V, "bin/replay"), f], env={k: v for k, v in os.environ.items() if k != "VSIM_REPO"}, capture_output=True, text=True)
            ok = a.returncode == 1 and "reproduced" in a.stdout and b.returncode == 3
            bad += 0 if ok else 1
            print("%-62s original: %s   current: %s   %s" % (os.path.basename(f), "reproduced" if a.returncode == 1 else "NOT reproduced (exit %d)" % a.returncode,
                                                          "gone" if b.returncode == 3 else "STILL THERE (exit %d)" % b.returncode, "ok" if ok else "UNEXPECTED"), flush=True)
    finally:
        if made:
            subprocess.run(["git", "-C", "/repo", "worktree", "remove", "--force", made], capture_output=True)
    print("findings replay: %s" % ("ok" if not bad else "%d unexpected" % bad))
    sys.exit(1 if bad else 0)
main()
