#!/venv/bin/python
"""Sensitivity self-test: apply each mutant (a textual replacement) to a scratch copy of /repo under /dev/shm,
run the named check against it (VSIM_REPO), expect exit 1 (VIOLATION).  The scratch copy is removed afterwards.
usage: selftest/sensitivity.py [mutant-id ...]      (mutants: selftest/mutants/mutants.json)"""
import json, os, shutil, subprocess, sys, time
V = os.path.dirname(os.path.dirname(os.path.abspath(__file__)))
def main():
    muts = json.load(open(os.path.join(V, "selftest/mutants/mutants.json")))
    want = sys.argv[1:]
    scratch = "/dev/shm/vsim_mut_%d" % os.getpid()
    res = []
    try:
        for m in muts:
            if want and m["id"] not in want and m["prop"] not in want:
                continue
            shutil.rmtree(scratch, ignore_errors=True)
            os.makedirs(scratch)
            subprocess.run(["cp", "-r", "/repo/pyerrors", scratch + "/pyerrors"], check=True)
            subprocess.run(["cp", "-r", "/repo/examples", scratch + "/examples"], check=True)     # json_schema.json
            p = os.path.join(scratch, m["file"])
            s = open(p).read()
            if s.count(m["old"]) != 1:
                res.append((m["id"], m["prop"], "PATCH-FAILED (%d matches)" % s.count(m["old"]), 0))
                continue
            open(p, "w").write(s.replace(m["old"], m["new"]))
            t = time.time()
            env = dict(os.environ, VSIM_REPO=scratch, VSIM_MIN_BUDGET_S="3", VSIM_RUNS=str(m.get("runs", "")) if m.get("runs") else os.environ.get("VSIM_RUNS", ""))
            if not env["VSIM_RUNS"]:
                env.pop("VSIM_RUNS")
            env["VSIM_NO_EVIDENCE"] = "1"
            r = subprocess.run([os.path.join(V, "bin/check"), m["prop"], "quick"], env=env, capture_output=True, text=True)
            viol = [l for l in r.stdout.splitlines() if l.startswith("  clause")]
            status = "CAUGHT" if r.returncode == 1 else "MISSED (exit %d)" % r.returncode
            # the replay file of the first violation must reproduce it in a fresh process
            rp = [l.split("replay=")[1].strip() for l in r.stdout.splitlines() if l.startswith("VIOLATION") and "replay=" in l]
            if r.returncode == 1 and rp:
                rr = subprocess.run([os.path.join(V, "bin/replay"), rp[0]], env=env, capture_output=True, text=True)
                status += " replay:%s" % ("reproduced" if rr.returncode == 1 and "reproduced:" in rr.stdout else "NOT-REPRODUCED(exit %d)" % rr.returncode)
            res.append((m["id"], m["prop"], status, time.time() - t, viol[:1]))
            print(res[-1], flush=True)
    finally:
        shutil.rmtree(scratch, ignore_errors=True)
    missed = [r for r in res if not r[2].startswith("CAUGHT") or "NOT-REPRODUCED" in r[2]]
    print("%d mutants, %d caught, %d not caught: %s" % (len(res), len(res) - len(missed), len(missed), [r[0] for r in missed]))
    sys.exit(1 if missed else 0)
main()
