#!/venv/bin/python
"""Determinism self-test: same VERIF_SEED -> same per-run event-log digests
 (a) twice with 16 workers, (b) with 4 workers, (c) with every run moved to another PYTHONHASHSEED class.
usage: selftest/determinism.py <prop> [runs] [seed ...]"""
import os, subprocess, sys, tempfile
V = os.path.dirname(os.path.dirname(os.path.abspath(__file__)))
def run(prop, runs, seed, workers, shift, tag):
    fn = os.path.join(tempfile.gettempdir(), "vsim_det_%s_%s_%d.txt" % (prop, tag, os.getpid()))
    env = dict(os.environ, VSIM_RUNS=str(runs), VERIF_SEED=str(seed), VSIM_WORKERS=str(workers), VSIM_HS_SHIFT=str(shift), VSIM_DUMP_DIGESTS=fn, VSIM_NO_EVIDENCE="1")
    p = subprocess.run([os.path.join(V, "bin/check"), prop, "quick"], env=env, capture_output=True, text=True)
    d = open(fn).read()
    os.unlink(fn)
    return d, p.returncode
def main():
    prop = sys.argv[1]
    runs = int(sys.argv[2]) if len(sys.argv) > 2 else 200
    seeds = [int(x) for x in sys.argv[3:]] or [1, 2]
    bad = 0
    for seed in seeds:
        a, ra = run(prop, runs, seed, 16, 0, "a")
        b, rb = run(prop, runs, seed, 16, 0, "b")
        c, rc = run(prop, runs, seed, 4, 0, "c")
        d, rd = run(prop, runs, seed, 16, 1, "d")
        e, re_ = run(prop, runs, seed, 8, 3, "e")
        for tag, x in (("repeat", b), ("4 workers", c), ("hashseed shift 1", d), ("hashseed shift 3 / 8 workers", e)):
            if x != a:
                la, lx = a.splitlines(), x.splitlines()
                diff = [(i, p, q) for i, (p, q) in enumerate(zip(la, lx)) if p != q]
                print("NONDETERMINISM prop=%s seed=%d vs %s: %d of %d runs differ, first %s" % (prop, seed, tag, len(diff), len(la), diff[:2]))
                bad += 1
        print("seed %d: %d runs x5 executions, exits %s" % (seed, len(a.splitlines()), (ra, rb, rc, rd, re_)))
    print("determinism:", "FAILED" if bad else "ok")
    sys.exit(1 if bad else 0)
main()
