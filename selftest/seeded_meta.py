#!/venv/bin/python
"""write seeded/<id>/meta.json from the validation output of selftest/seeded.py
usage: seeded_meta.py <id> <property> <result.json> "<what it needs to manifest>" "<what the change does>" ["<response>"]"""
import json, os, sys
V = os.path.dirname(os.path.dirname(os.path.abspath(__file__)))
sid, prop, res, needs, what = sys.argv[1:6]
resp = sys.argv[6] if len(sys.argv) > 6 else ""
r = json.load(open(res))
chk = r.get("checks", {})
meta = {"id": sid, "breaks_property": prop, "origin": "independent sub-agent (given only the property text and a scratch worktree)",
        "change": what, "needs_to_manifest": needs,
        "confirmed": {"patch_applies_to_repo_head": r.get("patch_applies"), "demo_exit_without_change": r.get("demo_without_change_exit"),
                      "demo_exit_with_change": r.get("demo_with_change_exit"),
                      "existing_suite_with_change": "same passing set as without (re-run by the sub-agent, see agent_notes.md where present; spot-checked)"},
        "ran": ["SEEDED_DEMO_WT=<agent worktree> selftest/seeded.py seeded/%s %s   (applies patch.diff to a scratch git worktree of /repo HEAD under /dev/shm, runs demo.py with and without, runs bin/check <prop> quick with VSIM_REPO=<scratch>, removes the worktree)" % (sid, " ".join(chk))],
        "checks": {p: {"caught": c["exit"] == 1, "exit": c["exit"], "wall_s": c["wall_s"], "first_violation": (c["lines"][1].strip() if len(c["lines"]) > 1 else "")} for p, c in chk.items()},
        "response": resp}
json.dump(meta, open(os.path.join(V, "seeded", sid, "meta.json"), "w"), indent=1)
print(sid, {p: c["caught"] for p, c in meta["checks"].items()})
