#!/venv/bin/python
"""Validate a seeded change and run checks against it.
usage: selftest/seeded.py <dir with patch.diff + demo.py> <prop> [more props...]   (env VSIM_RUNS optional)
Creates a scratch git worktree of /repo under /dev/shm, applies the patch there, runs the demo with and without the
change and the named checks against the scratch tree (VSIM_REPO), prints a JSON summary, removes the worktree."""
import json, os, subprocess, sys, time
V = os.path.dirname(os.path.dirname(os.path.abspath(__file__)))
def sh(cmd, **kw):
    return subprocess.run(cmd, shell=True, capture_output=True, text=True, **kw)
def main():
    d = os.path.abspath(sys.argv[1])
    props = sys.argv[2:]
    wt = "/dev/shm/vsim_seed_%d" % os.getpid()
    out = {"dir": d}
    sh("git -C /repo worktree add -f %s HEAD" % wt)
    try:
        env = "PYTHONPATH=%s MPLBACKEND=Agg" % wt
        dwt = os.environ.get("SEEDED_DEMO_WT")          # demos written by sub-agents assert their own worktree path
        if dwt:
            sh("git -C %s checkout -- pyerrors" % dwt)
            r0 = sh("PYTHONPATH=%s MPLBACKEND=Agg timeout 900 /venv/bin/python %s/demo.py" % (dwt, d))
            sh("git -C %s apply %s/patch.diff" % (dwt, d))
            r1 = sh("PYTHONPATH=%s MPLBACKEND=Agg timeout 900 /venv/bin/python %s/demo.py" % (dwt, d))
            sh("git -C %s checkout -- pyerrors" % dwt)
            out["demo_without_change_exit"], out["demo_with_change_exit"] = r0.returncode, r1.returncode
            out["demo_with_change_tail"] = (r1.stdout + r1.stderr)[-300:]
        else:
            r0 = sh("%s timeout 600 /venv/bin/python %s/demo.py" % (env, d))
            out["demo_without_change_exit"] = r0.returncode
        a = sh("git -C %s apply %s/patch.diff" % (wt, d))
        out["patch_applies"] = a.returncode == 0
        if a.returncode:
            out["apply_err"] = a.stderr[-300:]
            print(json.dumps(out, indent=1)); return
        if not dwt:
            r1 = sh("%s timeout 600 /venv/bin/python %s/demo.py" % (env, d))
            out["demo_with_change_exit"] = r1.returncode
            out["demo_with_change_tail"] = (r1.stdout + r1.stderr)[-300:]
        if os.environ.get("SEEDED_TESTS"):
            t = sh("cd %s && %s timeout 1500 /venv/bin/python -m pytest -q -p no:cacheprovider --timeout=900 2>&1 | tail -3" % (wt, env))
            out["suite_with_change"] = t.stdout[-300:]
        out["checks"] = {}
        for p in props:
            t0 = time.time()
            c = sh("VSIM_REPO=%s VSIM_NO_EVIDENCE=1 VSIM_MIN_BUDGET_S=20 %s/bin/check %s quick" % (wt, V, p))
            lines = [l for l in c.stdout.splitlines() if l.startswith("VIOLATION") or l.startswith("  clause") or l.startswith("HARNESS")]
            out["checks"][p] = {"exit": c.returncode, "wall_s": round(time.time() - t0, 1), "lines": lines[:6], "summary": c.stdout.strip().splitlines()[-1][:200] if c.stdout.strip() else ""}
    finally:
        sh("git -C /repo worktree remove --force %s" % wt)
    print(json.dumps(out, indent=1))
main()
