"""Per-property run budgets.  quick: every-change check; thorough: deep exploration."""
RUNS = {
    #        quick   thorough
    "c03": (2400, 100000),
    "c04": (4000, 200000),
    "c11": (1600, 60000),
    "c12": (3000, 150000),
    "c13": (4000, 200000),
    "c14": (2000, 100000),
    "c17": (6000, 400000),
    "c18": (3000, 90000),
}
# wall-clock safety net for dispatch (seconds); when hit, fewer runs are made and reported honestly
BUDGET_S = {"quick": 240, "thorough": 3300}
LEVEL = {"c18": "fault_enumeration"}
