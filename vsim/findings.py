"""known_findings.json: read-only at run time."""
import json
import os

PATH = os.path.join(os.path.dirname(os.path.dirname(os.path.abspath(__file__))), "known_findings.json")


def load():
    if not os.path.exists(PATH):
        return []
    with open(PATH) as f:
        return json.load(f)["findings"]


def key_of(prop, v):
    return (prop.upper(), v["clause"], v["component"], v["disc"])


def match(findings, prop, v):
    """Return the matching *open* known finding or None.  'fixed' entries suppress nothing."""
    k = key_of(prop, v)
    for f in findings:
        if f.get("status") != "known":
            continue
        import fnmatch
        if (f["property"], f["clause"]) == k[:2] and fnmatch.fnmatchcase(k[2], f["component"]) and f["disc"] == k[3]:
            return f
    return None
