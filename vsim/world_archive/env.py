"""World B environment seams: simulated wall clock, user/host identity, fault-injecting open()/gzip for the
archive writers.  Installed over module-level names of pyerrors.input.json / dobs / pandas, pyerrors.obs, pyerrors.misc."""
import datetime as _dt
import errno
import gzip as _gzip
import io
import os
import time as _time
import types

from .. import seams


class Clock:
    """simulated wall clock (seconds since the epoch, with microseconds); discrete-event: advanced by plan operations"""

    def __init__(self, t0=1700000000.25, tz_minutes=60):
        self.t = t0
        self.tz = tz_minutes
        self.reads = 0

    def advance(self, dt):
        self.t += dt

    def jump(self, t):
        self.t = t


def make_datetime_module(clock):
    tz = _dt.timezone(_dt.timedelta(minutes=clock.tz))

    class FakeDateTime(_dt.datetime):
        @classmethod
        def now(cls, tz_=None):
            clock.reads += 1
            base = _dt.datetime.fromtimestamp(clock.t, tz)
            if tz_ is None:
                # naive local time, as datetime.now() returns it
                return cls(base.year, base.month, base.day, base.hour, base.minute, base.second, base.microsecond)
            return base.astimezone(tz_)

        def astimezone(self, tz_=None):
            if tz_ is None:
                naive = _dt.datetime(self.year, self.month, self.day, self.hour, self.minute, self.second, self.microsecond, tzinfo=tz)
                return naive
            return super().astimezone(tz_)

    mod = types.ModuleType("datetime")
    for k in dir(_dt):
        if not k.startswith("__"):
            setattr(mod, k, getattr(_dt, k))
    mod.datetime = FakeDateTime
    return mod


def make_time_module(clock):
    mod = types.ModuleType("time")
    for k in dir(_time):
        if not k.startswith("__"):
            setattr(mod, k, getattr(_time, k))
    mod.time = lambda: clock.t
    return mod


class Identity:
    def __init__(self, user="jdoe", host="node01.cluster", plat="Linux-6.1-x86_64"):
        self.user, self.host, self.plat = user, host, plat


def make_identity_modules(ident):
    gp = types.SimpleNamespace(getuser=lambda: ident.user)
    so = types.SimpleNamespace(gethostname=lambda: ident.host)
    pl = types.SimpleNamespace(platform=lambda: ident.plat)
    return gp, so, pl


class FaultPlan:
    """at most one armed write fault: fail at the k-th byte written to the next file opened for writing"""

    def __init__(self, ctx):
        self.ctx = ctx
        self.armed = None       # {"at": k, "err": "ENOSPC"|"EIO"}
        self.last = None        # state of the last faulted/observed write

    def arm(self, at, err):
        self.armed = {"at": at, "err": err}

    def take(self):
        a, self.armed = self.armed, None
        return a


class _TextOverBinary(io.TextIOWrapper):
    pass


def make_open(faults):
    def sim_open(file, mode="r", *a, **k):
        if "w" in mode or "a" in mode or "x" in mode:
            arm = faults.take()
            if arm is None:
                return seams.real_open(file, mode, *a, **k)
            st = {"written": 0, "fired": False, "path": str(file)}
            faults.last = st
            raw = seams.real_open(file, mode.replace("t", "") if "b" in mode else mode.replace("t", "") + "b")
            fw = _Faulty(raw, arm["at"], arm["err"], faults.ctx, st)
            if "b" in mode:
                return fw
            enc = k.get("encoding", None) or "utf-8"
            return io.TextIOWrapper(fw, encoding=enc, write_through=True)
        return seams.real_open(file, mode, *a, **k)
    return sim_open


class _Faulty(io.RawIOBase):
    def __init__(self, f, fail_at, err, ctx, st):
        super().__init__()
        self._f, self._at, self._err, self._ctx, self._st = f, fail_at, err, ctx, st

    def writable(self):
        return True

    def write(self, data):
        data = bytes(data)
        st = self._st
        if st["written"] + len(data) > self._at and not st["fired"]:
            keep = max(0, self._at - st["written"])
            if keep:
                self._f.write(data[:keep])
            self._f.flush()
            st["written"] += keep
            st["fired"] = True
            self._ctx.fault(self._err.lower())
            raise OSError(getattr(errno, self._err), os.strerror(getattr(errno, self._err)))
        if st["fired"]:
            raise OSError(getattr(errno, self._err), os.strerror(getattr(errno, self._err)))
        self._f.write(data)
        st["written"] += len(data)
        return len(data)

    def flush(self):
        if not self._f.closed:
            self._f.flush()

    def close(self):
        if not self._f.closed:
            self._f.close()
        super().close()


class _OwningGzipFile(_gzip.GzipFile):
    """GzipFile that closes the file object it was given (as gzip.open(filename) does with the file it opened)"""

    def close(self):
        fo = self.fileobj
        try:
            super().close()
        finally:
            if fo is not None:
                fo.close()


def make_gzip_module(clock, faults):
    mod = types.ModuleType("gzip")
    for k in dir(_gzip):
        if not k.startswith("__"):
            setattr(mod, k, getattr(_gzip, k))

    def gz_open(filename, mode="rb", *a, **k):
        if "w" in mode and "t" not in mode:
            arm = faults.take()
            if arm is None:
                return _gzip.GzipFile(filename, mode.replace("b", "") + "b", mtime=clock.t)
            st = {"written": 0, "fired": False, "path": str(filename)}
            faults.last = st
            raw = seams.real_open(filename, "wb")
            fw = _Faulty(raw, arm["at"], arm["err"], faults.ctx, st)
            return _OwningGzipFile(filename=os.path.basename(str(filename)), mode="wb", fileobj=fw, mtime=clock.t)
        return _gzip.open(filename, mode, *a, **k)
    mod.open = gz_open
    mod.compress = lambda data, compresslevel=9, *, mtime=None: _gzip.compress(data, compresslevel, mtime=clock.t if mtime is None else mtime)
    return mod


def install(ctx, clock, ident):
    """-> (patches list for seams.patched, FaultPlan)"""
    import pyerrors.input.json as mj
    import pyerrors.input.dobs as md
    import pyerrors.input.pandas as mp
    import pyerrors.obs as mo
    import pyerrors.misc as mm
    faults = FaultPlan(ctx)
    dtm = make_datetime_module(clock)
    gzm = make_gzip_module(clock, faults)
    gp, so, pl = make_identity_modules(ident)
    op = make_open(faults)
    pairs = [(mj, "datetime", dtm), (md, "datetime", dtm), (mj, "gzip", gzm), (md, "gzip", gzm), (mp, "gzip", gzm),
             (mj, "getpass", gp), (md, "getpass", gp), (mj, "socket", so), (md, "socket", so), (mj, "platform", pl),
             (mj, "open", op), (md, "open", op), (mo, "open", op), (mm, "open", op),
             (_gzip, "time", make_time_module(clock))]
    return pairs, faults
