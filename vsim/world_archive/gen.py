"""World B: structures of observables from plan data, canonical plain forms, tolerant comparison."""
import random

import numpy as np

from .. import kernel
from ..world_session import objs

TAGS = [None, None, "a tag", "üñí", 7, 2.5, True, ["x", 1], {"k": [1, 2]}, 0, "", False, [], {}]
MAGS = [1.0, 1.0, 1e-30, 1e30, 1e-3, 1e6]


def gen_layout(rng, allow_cov=True, max_ens=3):
    """shared layout of all members of one structure: [(chain name, idl spec)], cov spec"""
    nens = rng.choice([1, 1, 2, max_ens])
    ens = rng.sample(["A", "A2", "B2", "ens_c", "Dd"], nens)     # "A" / "A2": one ensemble name a prefix of another
    chains = []
    for e in ens:
        R = rng.choice([1, 1, 2, 3])
        if R == 1 and rng.random() < 0.4:
            names = [e]
        else:
            names = ["%s|r%d" % (e, k) for k in rng.sample([0, 1, 2, 3, 10, 11, 100], R)]
        for nm in names:
            n = rng.randint(5, 14)
            chains.append({"name": nm, "n": n, "idl": objs.gen_idl(rng, n)})
    cov = None
    if allow_cov and rng.random() < 0.3:
        cov = rng.choice(["covA", "sys_b", "Zc"])
    zero_cov = None
    if allow_cov and rng.random() < 0.12:
        zero_cov = rng.choice([c for c in ["covA", "sys_b", "Zc"] if c != cov])      # a covariance input the observable carries with vanishing gradient (a + c - c)
    return {"chains": chains, "cov": cov, "zero_cov": zero_cov, "mag": rng.choice(MAGS), "reweighted": rng.random() < 0.2,
            "nonlinear": rng.random() < 0.35}      # a non-linear function: replica means differ from the central value even for one replica


def gen_struct(rng, depth=0, kinds=("obs", "obs", "list", "array", "corr", "corr")):
    k = rng.choice(kinds)
    s = {"t": k, "layout": gen_layout(rng), "seed": rng.getrandbits(32)}
    if k == "obs":
        s["tag"] = rng.randrange(len(TAGS))
    elif k == "list":
        s["n"] = rng.randint(2, 4)      # a one-element list cell / structure comes back as a bare Obs (documented unpacking)
        s["tags"] = [rng.randrange(len(TAGS)) if rng.random() < 0.4 else 0 for _ in range(s["n"])]
    elif k == "array":
        s["shape"] = rng.choice([[1], [3], [2, 2], [1, 3], [2, 1, 2], [2, 3], [3, 2], [1, 1], [1, 2, 1, 2]])
        s["order"] = rng.choice(["C", "C", "F", "T", "swap"])      # memory layout of the ndarray handed to the exporter
        n = int(np.prod(s["shape"]))
        s["tags"] = [rng.randrange(len(TAGS)) if rng.random() < 0.3 else 0 for _ in range(n)]
    else:
        s["T"] = rng.randint(1, 6)
        s["N"] = rng.choice([1, 1, 2, 3])
        s["none"] = sorted(rng.sample(range(s["T"]), rng.choice([0, 0, 1, min(2, s["T"] - 1)]))) if s["T"] > 1 else []
        s["pad"] = [rng.choice([0, 0, 1, 2]), rng.choice([0, 0, 1])]
        s["prange"] = rng.choice([None, None, [0, 1], [1, 3]])
        s["ctag"] = rng.choice([None, None, "G_pp", "ünï", "None" if rng.random() < 0.15 else "corr tag", ""])
        s["layout"]["reweighted"] = s["layout"]["reweighted"]
    return s


def gen_dict(rng, depth=0):
    d = {}
    keys = ["a", "b", "obs", 3, 2.5, True, None, "nested", "lst", "c"]      # no 1 next to True (equal as dict keys)
    rng.shuffle(keys)
    nk = rng.randint(1, 4)
    for ki, k in enumerate(keys[:nk]):
        r = rng.random()
        if r < 0.5 or depth >= 2 or ki == 0:
            d_k = {"v": gen_struct(rng, kinds=("obs", "list", "array", "corr"))}
        elif r < 0.7:
            d_k = {"d": gen_dict(rng, depth + 1)}
        elif r < 0.85:
            d_k = {"l": [rng.choice([1, "s", None, 2.5]), {"v": gen_struct(rng, kinds=("obs", "corr"))}]}
        elif r < 0.93:
            # lists inside a list: independent items (observables of different ensembles, mixed with numbers, an empty list)
            d_k = {"ll": [{"v": gen_struct(rng, kinds=("obs",))}, {"v": gen_struct(rng, kinds=("obs",))}], "empty": rng.random() < 0.5, "scalar": rng.choice([1, "s", None, 2.5])}
        else:
            # plain values; strings that look like the writer's placeholders ("DICTOBS<n>...") may be refused at export
            # (documented: "cannot be safely exported") but must never be written and then read back as something else
            d_k = {"p": rng.choice([1, "text", None, 2.5, True, [1, 2], [], {}, [[], {}], [1, [2, [3, []]]], "xDICTOBS3", "DICTOBS0 is the pion", "DICTOBS12", ["DICTOBS1\n"]])}
        d[repr(k)] = {"key": k, "val": d_k}
    return d


def member(layout, seed, tagidx=0):
    import pyerrors as pe
    rnd = random.Random(kernel.H("member", seed))
    samples, names, idl = [], [], []
    mag = layout["mag"]
    for ch in layout["chains"]:
        x = np.array([mag * (1.0 + 0.3 * rnd.gauss(0, 1)) for _ in range(ch["n"])])
        samples.append(x)
        names.append(ch["name"])
        idl.append(objs.idl_obj(ch["idl"]))
    # one primary per ensemble, summed
    byens = {}
    for s_, n_, i_ in zip(samples, names, idl):
        byens.setdefault(n_.split("|")[0], []).append((s_, n_, i_))
    tot = None
    for e in sorted(byens):
        o = pe.Obs([t[0] for t in byens[e]], [t[1] for t in byens[e]], idl=[t[2] for t in byens[e]])
        tot = o if tot is None else tot + rnd.choice([1.0, 0.5, -2.0]) * o
    if layout["cov"]:
        cd = objs.COVS[layout["cov"]]
        co = pe.cov_Obs(cd["means"] if cd["dim"] > 1 else cd["means"][0], np.array(cd["cov"]) if cd["dim"] > 1 else cd["cov"][0][0], layout["cov"])
        co = co if isinstance(co, pe.Obs) else co[rnd.randrange(cd["dim"])]
        tot = tot + (mag * rnd.choice([1.0, 0.25])) * co
    if layout.get("zero_cov"):
        cd = objs.COVS[layout["zero_cov"]]
        cz = pe.cov_Obs(cd["means"] if cd["dim"] > 1 else cd["means"][0], np.array(cd["cov"]) if cd["dim"] > 1 else cd["cov"][0][0], layout["zero_cov"])
        cz = cz if isinstance(cz, pe.Obs) else cz[0]
        tot = tot + cz - cz
    if layout.get("nonlinear"):
        tot = tot * tot / mag if abs(mag) < 1e100 else tot
        # an observable whose central value is not the mean of its samples (as after import_jackknife of a non-linear function)
        tot._value = tot.value * (1.0 + 1e-3)
    tot.reweighted = bool(layout["reweighted"])
    tot.tag = TAGS[tagidx]
    return tot


def build(s):
    """structure spec -> pyerrors object"""
    import pyerrors as pe
    t = s["t"]
    if t == "obs":
        return member(s["layout"], s["seed"], s["tag"])
    if t == "list":
        return [member(s["layout"], s["seed"] + i, s["tags"][i]) for i in range(s["n"])]
    if t == "array":
        n = int(np.prod(s["shape"]))
        a = np.empty(n, dtype=object)
        for i in range(n):
            a[i] = member(s["layout"], s["seed"] + i, s["tags"][i])
        a = a.reshape(s["shape"])
        order = s.get("order", "C")
        if order == "F":
            a = np.asfortranarray(a)
        elif order == "T" and a.ndim >= 2:
            a = np.ascontiguousarray(a.T).T            # a transposed view: same logical array, non-contiguous memory
        elif order == "swap" and a.ndim >= 2:
            a = np.ascontiguousarray(np.swapaxes(a, 0, -1)).swapaxes(0, -1)
        return a
    T, N = s["T"], s["N"]
    content = []
    k = 0
    for t_ in range(T):
        if t_ in s["none"]:
            content.append(None)
            continue
        if N == 1:
            content.append(member(s["layout"], s["seed"] + k))
            k += 1
        else:
            a = np.empty((N, N), dtype=object)
            for i in range(N):
                for j in range(N):
                    a[i, j] = member(s["layout"], s["seed"] + k)
                    k += 1
            content.append(a)
    if all(c is None for c in content):
        content[0] = member(s["layout"], s["seed"]) if N == 1 else np.array([[member(s["layout"], s["seed"] + 10 * i + j) for j in range(N)] for i in range(N)], dtype=object)
    c = pe.Corr(content, padding=list(s["pad"]), prange=s["prange"])
    c.tag = s["ctag"]
    return c


def build_dict(d):
    out = {}
    for name in sorted(d):                  # plan semantics must not depend on JSON key order (replay files sort keys)
        k = d[name]
        key, v = k["key"], k["val"]
        if "v" in v:
            out[key] = build(v["v"])
        elif "d" in v:
            out[key] = build_dict(v["d"])
        elif "l" in v:
            out[key] = [v["l"][0], {"inner": build(v["l"][1]["v"])}]
        elif "ll" in v:
            a, b = build(v["ll"][0]["v"]), build(v["ll"][1]["v"])
            out[key] = [v["scalar"], [a, b]] + ([[]] if v["empty"] else []) + [[v["scalar"], b]]
        else:
            out[key] = v["p"]
    return out


# ------------------------------------------------------------------ canonical plain form

def canon(x):
    import pyerrors as pe
    if isinstance(x, pe.Obs):
        p = objs.plain(x)
        return {"__obs__": 1, "names": sorted(p["names"]), "idl": p["idl"], "deltas": p["deltas"], "r_values": {k: float(v) for k, v in p["r_values"].items()},
                "value": float(p["value"]), "cov": p["cov"], "tag": p["tag"], "reweighted": p["reweighted"]}
    if isinstance(x, pe.CObs):
        return {"__cobs__": 1, "re": canon(x.real), "im": canon(x.imag)}
    if isinstance(x, pe.Corr):
        return {"__corr__": 1, "T": x.T, "N": x.N, "content": [None if c is None else canon(np.asarray(c, dtype=object)) for c in x.content],
                "prange": None if x.prange is None else list(x.prange), "tag": x.tag}
    if isinstance(x, np.ndarray):
        if x.dtype == object:
            return {"__array__": list(x.shape), "items": [canon(e) for e in x.ravel()]}
        return {"__ndarray__": list(x.shape), "items": x.ravel().tolist()}
    if isinstance(x, (list, tuple)):
        return [canon(e) for e in x]
    if isinstance(x, dict):
        return {"__dict__": {jkey(k): canon(v) for k, v in x.items()}}
    if isinstance(x, (np.floating,)):
        return float(x)
    if isinstance(x, (np.integer,)):
        return int(x)
    if isinstance(x, np.bool_):
        return bool(x)
    return x


def jkey(k):
    """documented conversion of dictionary keys on export"""
    if k is True:
        return "true"
    if k is False:
        return "false"
    if k is None:
        return "null"
    if isinstance(k, (int, float)):
        return str(k)
    return k


def diff(a, b, path="", tol=64 * np.finfo(float).eps, check_tag=True, check_rw=True, exact=False):
    """first difference between two canonical forms (a expected, b observed) or None"""
    if isinstance(a, dict) and "__obs__" in a:
        if not (isinstance(b, dict) and "__obs__" in b):
            return path + ": expected an Obs, got %s" % _kind(b)
        if a["names"] != b["names"]:
            return path + ": names %r vs %r" % (a["names"], b["names"])
        if a["idl"] != b["idl"]:
            for n in a["idl"]:
                if a["idl"][n] != b["idl"].get(n):
                    return path + ": idl[%s] %s vs %s" % (n, _short(a["idl"][n]), _short(b["idl"].get(n)))
        # json / dobs store delta + (r_value - value): the representable precision is set by the largest of these magnitudes
        sc = abs(a["value"]) + max([float(np.max(np.abs(d))) if len(d) else 0.0 for d in a["deltas"].values()] + [0.0]) \
            + max([abs(r - a["value"]) for r in a["r_values"].values()] + [0.0]) + 1e-300
        t = 0.0 if exact else tol * sc
        if not (abs(a["value"] - b["value"]) <= t):
            return path + ": value %.17g vs %.17g" % (a["value"], b["value"])
        for n in a["deltas"]:
            if a["deltas"][n].shape != b["deltas"][n].shape:
                return path + ": deltas[%s] shape %r vs %r" % (n, a["deltas"][n].shape, b["deltas"][n].shape)
            if not np.all(np.abs(a["deltas"][n] - b["deltas"][n]) <= t):
                i = int(np.argmax(np.abs(a["deltas"][n] - b["deltas"][n])))
                return path + ": deltas[%s][%d] %.17g vs %.17g" % (n, i, a["deltas"][n][i], b["deltas"][n][i])
            if not abs(a["r_values"][n] - b["r_values"][n]) <= t:
                return path + ": r_values[%s] %.17g vs %.17g" % (n, a["r_values"][n], b["r_values"][n])
        if sorted(a["cov"]) != sorted(b["cov"]):
            return path + ": covariance inputs %r vs %r" % (sorted(a["cov"]), sorted(b["cov"]))
        for n in a["cov"]:
            ca, ga = a["cov"][n]
            cb, gb = b["cov"][n]
            if np.shape(ca) != np.shape(cb) or not np.allclose(ca, cb, rtol=1e-13, atol=0):
                return path + ": cov[%s] differs" % n
            gs = float(np.max(np.abs(ga))) + 1e-300
            if np.shape(ga) != np.shape(gb) or not np.all(np.abs(np.asarray(ga) - np.asarray(gb)) <= (0.0 if exact else 1e-13 * gs)):
                return path + ": grad[%s] %r vs %r" % (n, np.ravel(ga).tolist(), np.ravel(gb).tolist())
        if check_tag and not _tag_eq(a["tag"], b["tag"]):
            return path + ": tag %r vs %r" % (a["tag"], b["tag"])
        if check_rw and bool(a["reweighted"]) != bool(b["reweighted"]):
            return path + ": reweighted %r vs %r" % (a["reweighted"], b["reweighted"])
        return None
    if isinstance(a, dict) and "__corr__" in a:
        if not (isinstance(b, dict) and "__corr__" in b):
            return path + ": expected a Corr, got %s" % _kind(b)
        if (a["T"], a["N"]) != (b["T"], b["N"]):
            return path + ": Corr T,N %r vs %r" % ((a["T"], a["N"]), (b["T"], b["N"]))
        for t_ in range(a["T"]):
            ca, cb = a["content"][t_], b["content"][t_]
            if (ca is None) != (cb is None):
                return path + ": timeslice %d %s vs %s" % (t_, "None" if ca is None else "defined", "None" if cb is None else "defined")
            if ca is not None:
                d = diff(ca, cb, path + "[t=%d]" % t_, tol, check_tag, check_rw, exact)
                if d:
                    return d
        if a["prange"] != b["prange"]:
            return path + ": prange %r vs %r" % (a["prange"], b["prange"])
        if a["tag"] != b["tag"]:
            return path + ": Corr tag %r vs %r" % (a["tag"], b["tag"])
        return None
    if isinstance(a, dict) and "__array__" in a:
        if not (isinstance(b, dict) and "__array__" in b):
            return path + ": expected an array, got %s" % _kind(b)
        if a["__array__"] != b["__array__"]:
            return path + ": array shape %r vs %r" % (a["__array__"], b["__array__"])
        for i, (x, y) in enumerate(zip(a["items"], b["items"])):
            d = diff(x, y, path + "[%d]" % i, tol, check_tag, check_rw, exact)
            if d:
                return d
        return None
    if isinstance(a, dict) and "__dict__" in a:
        if not (isinstance(b, dict) and "__dict__" in b):
            return path + ": expected a dict, got %s" % _kind(b)
        if sorted(a["__dict__"], key=repr) != sorted(b["__dict__"], key=repr):
            return path + ": keys %r vs %r" % (sorted(a["__dict__"], key=repr), sorted(b["__dict__"], key=repr))
        for k in a["__dict__"]:
            d = diff(a["__dict__"][k], b["__dict__"][k], path + "." + str(k), tol, check_tag, check_rw, exact)
            if d:
                return d
        return None
    if isinstance(a, list):
        if not isinstance(b, list) or len(a) != len(b):
            return path + ": list of %d vs %s" % (len(a), _kind(b))
        for i, (x, y) in enumerate(zip(a, b)):
            d = diff(x, y, path + "[%d]" % i, tol, check_tag, check_rw, exact)
            if d:
                return d
        return None
    if isinstance(a, float) and isinstance(b, (int, float)) and not isinstance(b, bool):
        return None if (a == b or abs(a - b) <= 1e-15 * abs(a)) else path + ": %r vs %r" % (a, b)
    if a != b or type(a) is not type(b):
        if isinstance(a, (int, float)) and isinstance(b, (int, float)) and not isinstance(a, bool) and not isinstance(b, bool) and a == b:
            return None
        return path + ": %r vs %r" % (a, b)
    return None


def _tag_eq(a, b):
    if isinstance(a, float) and isinstance(b, (int, float)):
        return a == b
    return a == b and type(a) is type(b) or (isinstance(a, (int, float)) and isinstance(b, (int, float)) and not isinstance(a, bool) and not isinstance(b, bool) and a == b)


def _kind(b):
    if isinstance(b, dict):
        for k in ("__obs__", "__corr__", "__array__", "__dict__", "__cobs__"):
            if k in b:
                return k.strip("_")
    return type(b).__name__


def _short(x):
    if isinstance(x, list) and len(x) > 8:
        return "[%s, %s, ... %s] (%d)" % (x[0], x[1], x[-1], len(x))
    return repr(x)


def all_obs(x):
    """flat list of the Obs inside a structure (for the subsequent-analysis check)"""
    import pyerrors as pe
    if isinstance(x, pe.Obs):
        return [x]
    if isinstance(x, pe.Corr):
        return [e for c in x.content if c is not None for e in np.asarray(c, dtype=object).ravel() if isinstance(e, pe.Obs)]
    if isinstance(x, np.ndarray):
        return [e for e in x.ravel() if isinstance(e, pe.Obs)]
    if isinstance(x, (list, tuple)):
        return [o for e in x for o in all_obs(e)]
    if isinstance(x, dict):
        return [o for e in x.values() for o in all_obs(e)]
    return []
