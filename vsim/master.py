"""Master: spawn workers, dispatch runs, aggregate in run-index order, minimise, write evidence."""
import json
import os
import queue
import shutil
import subprocess
import sys
import threading
import time

from . import kernel, config, findings, minimise

HS_SHIFT = int(os.environ.get("VSIM_HS_SHIFT", "0"))      # selftest: run every plan under another hash seed
VERIF = os.path.dirname(os.path.dirname(os.path.abspath(__file__)))
PY = os.environ.get("VSIM_PYTHON", "/venv/bin/python")
REPO = os.environ.get("VSIM_REPO", "/repo")


class Pool:
    def __init__(self, prop, nworkers, run_timeout):
        self.prop = prop
        self.K = len(kernel.HASHSEEDS)
        nworkers = max(self.K, (nworkers // self.K) * self.K)
        self.queues = [queue.Queue() for _ in range(self.K)]
        self.results = queue.Queue()
        self.procs = []
        self.threads = []
        self.errlog = open(os.path.join(VERIF, ".worker_stderr.%s.log" % prop), "w")
        for w in range(nworkers):
            k = w % self.K
            env = dict(os.environ)
            env.update({"PYTHONHASHSEED": str(kernel.HASHSEEDS[k]), "OMP_NUM_THREADS": "1", "OPENBLAS_NUM_THREADS": "1",
                        "MKL_NUM_THREADS": "1", "MPLBACKEND": "Agg", "PYTHONDONTWRITEBYTECODE": "1",
                        "PYTHONPATH": REPO + ":" + VERIF, "VSIM_MASTER": str(os.getpid()), "VSIM_REPO": REPO,
                        "VSIM_RUN_TIMEOUT": str(run_timeout), "PYTHONWARNINGS": "ignore", "MPLCONFIGDIR": os.path.join("/dev/shm" if os.access("/dev/shm", os.W_OK) else __import__("tempfile").gettempdir(), "vsim.mpl")})
            p = subprocess.Popen([PY, "-m", "vsim.worker", prop, str(w)], stdin=subprocess.PIPE, stdout=subprocess.PIPE,
                                 stderr=self.errlog, env=env, cwd=VERIF, text=True, bufsize=1)
            self.procs.append(p)
            t = threading.Thread(target=self._serve, args=(p, k), daemon=True)
            t.start()
            self.threads.append(t)

    def _serve(self, p, k):
        q = self.queues[k]
        while True:
            job = q.get()
            if job is None:
                break
            outs = []
            for req in job:
                try:
                    p.stdin.write(json.dumps(req) + "\n")
                    p.stdin.flush()
                    line = p.stdout.readline()
                    if not line:
                        raise IOError("worker died")
                    outs.append(json.loads(line))
                except Exception as e:  # worker broke: report harness error for the rest
                    outs.append({"ok": False, "error": "worker failure: %r" % (e,), "r": req.get("r"), "id": req.get("id")})
            self.results.put(outs)

    def submit(self, reqs, k):
        self.queues[k].put(reqs)

    def close(self):
        for q in self.queues:
            for _ in range(len(self.procs)):
                q.put(None)
        for p in self.procs:
            try:
                p.stdin.write('{"op":"quit"}\n')
                p.stdin.flush()
                p.stdin.close()
            except Exception:
                pass
        for p in self.procs:
            try:
                p.wait(timeout=10)
            except Exception:
                p.kill()
        self.errlog.close()
        for d in (os.listdir("/dev/shm") if os.path.isdir("/dev/shm") else []):
            if d.startswith("vsim.%d." % os.getpid()):
                shutil.rmtree(os.path.join("/dev/shm", d), ignore_errors=True)

    def run_plan(self, plan, hashseed, tier, want_events=False):
        k = kernel.HASHSEEDS.index(hashseed)
        self.submit([{"op": "plan", "plan": plan, "tier": tier, "id": "p", "want_events": want_events}], k)
        return self.results.get()[0]

    def run_plans(self, plans, hashseed, tier):
        """Execute several candidate plans in parallel on the workers of one hash-seed class."""
        k = kernel.HASHSEEDS.index(hashseed)
        for i, pl in enumerate(plans):
            self.submit([{"op": "plan", "plan": pl, "tier": tier, "id": i}], k)
        res = [None] * len(plans)
        for _ in plans:
            o = self.results.get()[0]
            res[o["id"]] = o
        return res


def check(prop, tier, seed, nruns=None, nworkers=None, quiet=False):
    t0 = time.time()
    PROP = prop.upper()
    qi = 0 if tier == "quick" else 1
    nruns = int(os.environ.get("VSIM_RUNS", nruns or config.RUNS[prop][qi]))
    budget = float(os.environ.get("VSIM_BUDGET_S", config.BUDGET_S[tier]))
    nworkers = int(os.environ.get("VSIM_WORKERS", nworkers or os.cpu_count() or 4))
    pool = Pool(prop, nworkers, run_timeout=float(os.environ.get("VSIM_RUN_TIMEOUT", "240")))
    known = findings.load()
    try:
        nchunks = (nruns + kernel.CHUNK - 1) // kernel.CHUNK
        sent = 0
        results = {}
        inflight = 0
        maxinflight = 3 * len(pool.procs)
        stopped_early = False
        while sent < nchunks or inflight:
            while sent < nchunks and inflight < maxinflight:
                if time.time() - t0 > budget:
                    stopped_early = True
                    nchunks = sent
                    break
                c = sent
                reqs = [{"op": "run", "r": r, "seed": seed, "tier": tier, "want_plan": r < 3}
                        for r in range(c * kernel.CHUNK, min(nruns, (c + 1) * kernel.CHUNK))]
                pool.submit(reqs, (c + HS_SHIFT) % pool.K)
                sent += 1
                inflight += 1
            if inflight:
                outs = pool.results.get()
                inflight -= 1
                for o in outs:
                    results[o["r"]] = o
        order = sorted(results)
        errors = [results[r] for r in order if not results[r].get("ok")]
        faults, probes, sigs = {}, {}, set()
        comp_runs = {}
        compared = 0
        sim_time = 0.0
        samples = []
        digest_all = []
        nontrivial_runs = 0
        viol_runs = []
        for r in order:
            o = results[r]
            if not o.get("ok"):
                continue
            for k2, v in o["faults"].items():
                faults[k2] = faults.get(k2, 0) + v
            for k2, v in o["probes"].items():
                probes[k2] = probes.get(k2, 0) + v
            if o["compared"] > 0:
                nontrivial_runs += 1
                sigs.update(o["sigs"])
                for c in set(sg.split("/")[0] for sg in o["sigs"]):
                    comp_runs[c] = comp_runs.get(c, 0) + 1
            compared += o["compared"]
            sim_time += o.get("sim_time", 0.0)
            digest_all.append(o["digest"])
            if r < 3 and "plan" in o:
                samples.append({"run": r, "hashseed": kernel.hashseed_of_run(r), "plan": o["plan"]})
            if o["violations"]:
                viol_runs.append(r)
        if os.environ.get("VSIM_DUMP_DIGESTS"):
            with open(os.environ["VSIM_DUMP_DIGESTS"], "w") as f:
                for r in order:
                    f.write("%d %s %s\n" % (r, results[r].get("digest"), len(results[r].get("violations", []))))
        # classify violations
        new_keys = {}
        known_hits = {}
        for r in viol_runs:
            for v in results[r]["violations"]:
                f = findings.match(known, prop, v)
                if f is not None:
                    known_hits.setdefault(findings.key_of(prop, v), [f, 0, v])[1] += 1
                else:
                    new_keys.setdefault(findings.key_of(prop, v), (r, v))
        lines = []
        byf = {}
        for key, (f, n, v) in sorted(known_hits.items()):
            e = byf.setdefault(id(f), [f, 0, []])
            e[1] += n
            e[2].append(key[2])
        for f, n, comps in byf.values():
            lines.append("KNOWN-FINDING: property=%s %s/%s/%s hit %d times (%s): %s" % (PROP, f["clause"], f["component"], f["disc"], n, ",".join(sorted(set(comps)))[:80], f.get("what", "")))
        replays = []
        tmin0 = time.time()
        for key, (r, v) in list(sorted(new_keys.items(), key=lambda kv: kv[1][0]))[:4]:
            plan = results[r]["plan"]
            hs = kernel.HASHSEEDS[((r // kernel.CHUNK) + HS_SHIFT) % len(kernel.HASHSEEDS)]
            remaining = max(10.0, float(os.environ.get("VSIM_MIN_BUDGET_S", "90")) - (time.time() - tmin0))
            mplan, mres, tried = minimise.minimise(pool, prop, plan, hs, tier, key, budget_s=remaining)
            rdir = os.path.join(VERIF, "replays", PROP) if not os.environ.get("VSIM_NO_EVIDENCE") else os.path.join("/dev/shm", "vsim_replays_scratch", PROP)
            os.makedirs(rdir, exist_ok=True)
            path = os.path.join(rdir, "%d_%s.json" % (plan.get("run_seed", 0) % 10**10, kernel.digest(*key)[:6]))
            vv = [x for x in mres["violations"] if findings.key_of(prop, x) == key][0]
            with open(path, "w") as f:
                json.dump({"property": PROP, "verif_seed": seed, "run_index": r, "hashseed": hs, "tier": tier,
                           "violation": vv, "log_digest": mres["digest"], "plan": mplan,
                           "original_ops": _nops(plan), "minimised_ops": _nops(mplan), "candidates_tried": tried,
                           "faults_fired": mres["faults"]}, f, indent=1, sort_keys=True)
            replays.append(path)
            lines.append("VIOLATION property=%s replay=%s" % (PROP, path))
            lines.append("  clause=%s component=%s disc=%s :: %s" % (key[1], key[2], key[3], vv["detail"][:300]))
        if len(new_keys) > 4:
            lines.append("  (+%d further distinct violation keys not minimised)" % (len(new_keys) - 4))
            for k in sorted(new_keys)[:40]:
                lines.append("    key %s/%s/%s run=%d :: %s" % (k[1], k[2], k[3], new_keys[k][0], new_keys[k][1]["detail"][:160]))
        wall = time.time() - t0
        mod_meta = _meta(prop)
        unreached = sorted(p for p in mod_meta.get("expected_probes", []) if probes.get(p, 0) == 0)
        ev = {
            "property_id": PROP, "tier": tier, "seed": seed, "level": config.LEVEL.get(prop, "exploration"),
            "wall_s": round(wall, 2), "violations": len(new_keys),
            "coverage": {
                "evaluations": len(order) - len(errors),
                "distinct_nontrivial": len(sigs),
                "rule": mod_meta.get("rule", ""),
                "samples": samples if samples else [{"note": "no sample"}],
                "runs_with_comparisons": nontrivial_runs,
                "facts_compared": compared,
                "runs_per_hour": int((len(order)) / max(wall, 1e-9) * 3600),
                "seeds_per_hour": int((len(order)) / max(wall, 1e-9) * 3600),
                "simulated_time": {"unit": mod_meta.get("time_unit", "none - logical steps only"), "total": round(sim_time, 3)},
                "faults_fired": faults,
                "probes": probes,
                "runs_by_first_signature_part": dict(sorted(comp_runs.items())),
                "unreached": unreached,
                "hashseeds": list(kernel.HASHSEEDS),
                "workers": len(pool.procs),
                "components": mod_meta.get("components", {}),
                "known_findings_hit": {"/".join(k[1:]): n for k, (f, n, v) in known_hits.items()},
                "harness_errors": len(errors),
                "stopped_early_by_budget": stopped_early,
                "aggregate_digest": kernel.digest(digest_all),
                "exhaustive": False,
            },
            "assumptions": mod_meta.get("assumptions", []),
        }
        ev["coverage"].update(mod_meta.get("extra_coverage", {}))
        if not os.environ.get("VSIM_NO_EVIDENCE"):      # selftests against scratch copies must not overwrite evidence
            os.makedirs(os.path.join(VERIF, "evidence"), exist_ok=True)
            with open(os.path.join(VERIF, "evidence", PROP + ".json"), "w") as f:
                json.dump(ev, f, indent=1, sort_keys=True)
        for ln in lines:
            print(ln)
        if unreached and not quiet:
            print("WARNING: probes never hit: %s" % unreached)
        print("%s %s seed=%d runs=%d distinct=%d compared=%d faults=%s errors=%d wall=%.1fs digest=%s" % (
            PROP, tier, seed, len(order), len(sigs), compared, sum(faults.values()), len(errors), wall, ev["coverage"]["aggregate_digest"]))
        seen = set()
        for e in errors:
            if e.get("error") not in seen and len(seen) < 4:
                seen.add(e.get("error"))
                print("HARNESS-ERROR run=%s: %s\n%s" % (e.get("r"), e.get("error"), e.get("tb", "")))
        if new_keys:
            return 1
        if errors:
            return 2
        return 0
    finally:
        pool.close()


def _nops(plan):
    return len(plan.get("ops", [])) if isinstance(plan.get("ops"), list) else None


def _meta(prop):
    p = os.path.join(VERIF, "vsim", "props", prop + "_meta.json")
    with open(p) as f:
        return json.load(f)


def replay(path):
    with open(path) as f:
        rep = json.load(f)
    prop = rep["property"].lower()
    pool = Pool(prop, len(kernel.HASHSEEDS), run_timeout=240)
    try:
        res = pool.run_plan(rep["plan"], rep["hashseed"], rep.get("tier", "quick"), want_events=bool(os.environ.get("VSIM_EVENTS")))
    finally:
        pool.close()
    if not res.get("ok"):
        print("HARNESS-ERROR:", res.get("error"), res.get("tb", ""))
        return 2
    want = rep["violation"]
    got = [v for v in res["violations"] if (v["clause"], v["component"], v["disc"]) == (want["clause"], want["component"], want["disc"])]
    if os.environ.get("VSIM_EVENTS"):
        for e in res.get("events", []):
            print("EVENT", e)
    if got and res["digest"] == rep["log_digest"]:
        print("VIOLATION property=%s replay=%s" % (rep["property"], path))
        print("  reproduced: clause=%s component=%s disc=%s :: %s" % (want["clause"], want["component"], want["disc"], got[0]["detail"][:400]))
        return 1
    if got:
        print("VIOLATION property=%s replay=%s" % (rep["property"], path))
        print("  reproduced with a different event digest (%s vs %s) - e.g. the tree changed since recording" % (res["digest"], rep["log_digest"]))
        return 1
    print("NOT REPRODUCED: %s (violations now: %s)" % (path, [(v["clause"], v["component"], v["disc"]) for v in res["violations"]]))
    return 3


def main():
    if sys.argv[1] == "replay":
        sys.exit(replay(sys.argv[2]))
    prop = sys.argv[1].lower()
    tier = sys.argv[2] if len(sys.argv) > 2 else os.environ.get("VERIF_TIER", "quick")
    seed = int(os.environ.get("VERIF_SEED", kernel.DEFAULT_SEED))
    sys.exit(check(prop, tier, seed))


if __name__ == "__main__":
    main()
