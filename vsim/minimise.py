"""Plan minimisation: ddmin over plan['ops'] plus property-specific argument shrinking.

A candidate is kept only if it fails with the same (clause, component, disc) key.
"""
import copy
import importlib
import time

from . import findings


def _fails(res, prop, key):
    return bool(res.get("ok")) and any(findings.key_of(prop, v) == key for v in res["violations"])


def minimise(pool, prop, plan, hashseed, tier, key, budget_s=90.0, max_tries=2000):
    t0 = time.time()
    tried = 0
    best = copy.deepcopy(plan)
    best_res = pool.run_plan(best, hashseed, tier)
    tried += 1
    if not _fails(best_res, prop, key):
        # not reproducible in a fresh child: report the original anyway (determinism bug of the harness)
        best_res.setdefault("violations", [])
        return best, {"violations": [dict(clause=key[1], component=key[2], disc=key[3], detail="NOT REPRODUCED on re-execution")],
                      "digest": best_res.get("digest", ""), "faults": best_res.get("faults", {})}, tried

    def out_of_budget():
        return time.time() - t0 > budget_s or tried >= max_tries

    # 1. ddmin on ops
    if isinstance(best.get("ops"), list):
        n = 2
        while len(best["ops"]) >= 2 and not out_of_budget():
            ops = best["ops"]
            size = max(1, len(ops) // n)
            cands = []
            for i in range(0, len(ops), size):
                c = copy.deepcopy(best)
                c["ops"] = ops[:i] + ops[i + size:]
                if c["ops"]:
                    cands.append(c)
            if not cands:
                break
            ress = pool.run_plans(cands, hashseed, tier)
            tried += len(cands)
            hit = None
            for c, r in zip(cands, ress):
                if _fails(r, prop, key):
                    hit = (c, r)
                    break
            if hit:
                best, best_res = hit
                n = max(n - 1, 2)
            else:
                if size == 1:
                    break
                n = min(len(ops), n * 2)
    # 2. property-specific shrinking (arguments, fault directives)
    try:
        mod = importlib.import_module("vsim.props." + prop + "_shrink")
    except ImportError:
        mod = None
    if mod is not None:
        progress = True
        while progress and not out_of_budget():
            progress = False
            cands = list(mod.shrink(best))[:64]
            if not cands:
                break
            ress = pool.run_plans(cands, hashseed, tier)
            tried += len(cands)
            for c, r in zip(cands, ress):
                if _fails(r, prop, key):
                    best, best_res = c, r
                    progress = True
                    break
    return best, best_res, tried
