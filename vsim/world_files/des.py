"""Discrete-event simulation of the Monte-Carlo programs that write measurement files.

Each writer owns one FileImage.  Its header becomes visible at `start`, record k at
start + (k+1)*period, in 1..3 chunks at distinct instants (torn records are visible in between).
A crash kills all writers at an arbitrary instant *and byte* (the chunk in flight is torn);
a restart makes every writer resume the way the real programs do: truncate to the last complete
record and continue appending.  Simulated time unit: one 'trajectory' == 1.0.
"""
import heapq
import os
import random

from .. import kernel


class Sim:
    def __init__(self, images, des, root, ctx):
        self.images = images          # list of FileImage
        self.des = des
        self.root = root
        self.ctx = ctx
        self.now = 0.0
        self.q = []
        self.seq = 0
        self.done_records = [0] * len(images)      # records completely written (current incarnation)
        self.bytes_written = [0] * len(images)
        for w, img in enumerate(images):
            self._schedule_writer(w, 0, self.des["writers"][w]["start"], header=True)

    def _push(self, t, w, data, rec_done):
        self.seq += 1
        heapq.heappush(self.q, (t, self.seq, w, data, rec_done))

    def _schedule_writer(self, w, first_rec, t0, header):
        img = self.images[w]
        wd = self.des["writers"][w]
        if header and img.header:
            self._push(t0, w, img.header, None)
        for k in range(first_rec, len(img.records)):
            rec = img.records[k]
            base = t0 + (k - first_rec + 1) * wd["period"]
            rnd = random.Random(kernel.H("split", wd["split_seed"], k))
            nsplit = rnd.choice([1, 2, 2, 3, 4]) if self.des.get("dense_splits") else rnd.choice([0, 0, 1, 2])
            cuts = sorted(set(rnd.randrange(1, len(rec)) for _ in range(nsplit))) if len(rec) > 1 else []
            if self.des.get("dense_splits") and k < len(img.fields) and (rnd.random() < 0.6 or self.des.get("field_end_tears")):
                # tear just behind the start of a field (1-3 bytes into it): short reads that leave less than one
                # integer behind are the ones a lenient reader mistakes for a clean end of file
                starts = [off + d for off, ln, tag in img.fields[k] for d in (1, 2, 3) if 0 < off + d < len(rec)]
                # ... and just before the end of a field (1-3 bytes missing): a reader that skips this field unchecked and
                # then gets a complete read is off by less than one integer and can run into a "clean" end of file
                starts += [off + ln - d for off, ln, tag in img.fields[k] for d in (1, 2, 3) if 0 < off + ln - d < len(rec)]
                if starts:
                    cuts = sorted(set(cuts + [rnd.choice(starts) for _ in range(2)]))
            parts = []
            prev = 0
            for c in cuts + [len(rec)]:
                parts.append(rec[prev:c])
                prev = c
            for j, part in enumerate(parts):
                self._push(base + 0.07 * j * wd["period"], w, part, k + 1 if j == len(parts) - 1 else None)

    def path(self, w):
        return os.path.join(self.root, self.images[w].name)

    def _append(self, w, data):
        p = self.path(w)
        os.makedirs(os.path.dirname(p), exist_ok=True)
        with open(p, "ab") as f:
            f.write(data)
        self.bytes_written[w] += len(data)

    def step(self):
        """deliver the next event; returns False when nothing is left."""
        if not self.q:
            return False
        t, _, w, data, rec_done = heapq.heappop(self.q)
        self.now = t
        self._append(w, data)
        if rec_done is not None:
            self.done_records[w] = rec_done
        else:
            self.ctx.probe("torn_state_exists")
        return True

    def run_until(self, t):
        while self.q and self.q[0][0] <= t:
            self.step()
        self.now = max(self.now, t)

    def run_all(self):
        while self.step():
            pass

    def end_time(self):
        return max([e[0] for e in self.q], default=self.now)

    def crash(self, torn_frac):
        """kill all writers now; the next pending chunk of one writer is torn (partially on disk)."""
        if self.q and torn_frac is not None:
            t, _, w, data, rec_done = self.q[0]
            keep = int(len(data) * torn_frac)
            if 0 < keep < len(data):
                self._append(w, data[:keep])
                self.ctx.fault("torn_record")
        self.q = []
        self.ctx.fault("crash")

    def restart(self, delay=1.0):
        """well-behaved restart: truncate to the last complete record, continue appending."""
        for w, img in enumerate(self.images):
            n = img.complete_before(self.bytes_written[w])
            p = self.path(w)
            if n < 0:
                if os.path.exists(p):
                    os.truncate(p, 0)
                self.bytes_written[w] = 0
                self.done_records[w] = 0
                self._schedule_writer(w, 0, self.now + delay, header=True)
            else:
                keep = img.boundaries()[n]
                if not os.path.exists(p):
                    os.makedirs(os.path.dirname(p), exist_ok=True)
                    open(p, "wb").close()
                os.truncate(p, keep)
                self.bytes_written[w] = keep
                self.done_records[w] = n
                self._schedule_writer(w, n, self.now + delay, header=False)
        self.ctx.fault("restart")


def gen_des(rng, nwriters):
    return {"writers": [{"start": round(rng.uniform(0, 20), 3), "period": rng.choice([1.0, 1.0, 2.0, 0.5, 7.5]), "split_seed": rng.getrandbits(30)}
                        for _ in range(nwriters)]}
