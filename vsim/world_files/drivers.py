"""World A drivers: scenario generation, reference model, real-reader invocation, comparison.

A *kind* bundles one reader family.  Interface:
  gen(rng, small)            -> params (pure JSON data; includes 'calls': list of selection-argument dicts)
  images(params)             -> list of (FileImage, rep_index, model)   (binary/text kinds)
  expect(params, nrecs, call)-> None ("must raise") or {label: ospec}; nrecs[i] = complete records of image i
  invoke(params, dir, call)  -> {label: Obs}     (runs the REAL pyerrors reader)
ospec = {"names": [...], "idl": {name: [int]}, "vals": {name: [float]}}
"""
import math
import os
import re

import numpy as np

from . import formats
from .. import wellformed

ENS_IDS = ["A654", "ens_b", "H105", "N300", "x", "Q-2", "b385k1"]
REPNUMS = [0, 1, 2, 3, 5, 9, 10, 11, 12, 100]


def gen_reps(rng, small=False, nmin=5, nmax=40, spacings=(1, 1, 1, 2, 4, 5, 10)):
    R = rng.choice([1, 1, 2, 2, 3])
    ks = sorted(rng.sample(REPNUMS, R))
    reps = []
    for k in ks:
        sp = rng.choice(spacings)
        first = rng.choice([0, 1, 1, sp, sp, 2 * sp, 3 * sp + rng.randrange(0, sp), rng.randrange(0, 4 * sp + 4)])
        nrec = rng.randint(nmin, 8 if small else nmax)
        reps.append({"k": k, "nrec": nrec, "first": first, "spacing": sp})
    return reps


def cfg_numbers(stored, spacing, shift_rule):
    """Docstring rule of the openQCD readers: configuration = stored number // spacing, shifted so that the
    first is 1 when the rule applies ('assume thermalization')."""
    cl = [s // spacing for s in stored]
    if shift_rule(cl[0], spacing):
        off = cl[0] - 1
        cl = [c - off for c in cl]
    return cl


def select(cl, r_start, r_stop, r_step):
    """indices selected by r_start/r_stop (configuration numbers, inclusive) and r_step; None -> 'must raise'."""
    if r_start:
        if r_start not in cl:
            return None
        i0 = cl.index(r_start)
    else:
        i0 = 0
    if r_stop is not None:
        if r_stop not in cl:
            return None
        i1 = cl.index(r_stop)
    else:
        i1 = len(cl) - 1
    return list(range(i0, i1 + 1))[::r_step]


def ospec_from(names, cfgs, vals):
    return {"names": sorted(names), "idl": {n: list(c) for n, c in zip(names, cfgs)}, "vals": {n: list(v) for n, v in zip(names, vals)}}


def obs_to_spec(o):
    return {"names": list(o.names), "idl": {n: [int(i) for i in o.idl[n]] for n in o.idl},
            "vals": {n: [float(x) for x in (np.asarray(o.deltas[n]) + o.r_values[n])] for n in o.deltas},
            "value": float(o.value)}


def spec_diff(exp, got, rtol=1e-13):
    """first difference between an expected ospec and a returned Obs' spec, or None."""
    if sorted(exp["names"]) != list(got["names"]):
        return ("names", "expected %r got %r" % (sorted(exp["names"]), got["names"]))
    for n in exp["names"]:
        if list(exp["idl"][n]) != list(got["idl"].get(n, [])):
            return ("idl", "%s: expected %s got %s" % (n, _short(exp["idl"][n]), _short(got["idl"].get(n))))
    tot, cnt = 0.0, 0
    for n in exp["names"]:
        e = np.asarray(exp["vals"][n], dtype=float)
        g = np.asarray(got["vals"][n], dtype=float)
        if e.shape != g.shape:
            return ("values", "%s: %d values expected, %d returned" % (n, len(e), len(g)))
        scale = max(1e-300, float(np.max(np.abs(e))) if len(e) else 0.0)
        bad = np.where(~(np.abs(e - g) <= rtol * scale))[0]
        if len(bad):
            i = int(bad[0])
            return ("values", "%s[cfg %s]: expected %.17g got %.17g" % (n, exp["idl"][n][i], e[i], g[i]))
        tot += float(np.sum(e))
        cnt += len(e)
    if cnt and "value" in got:
        m = tot / cnt
        if not abs(m - got["value"]) <= 1e-12 * max(abs(m), float(np.max([np.max(np.abs(exp["vals"][n])) for n in exp["names"]]))):
            return ("values", "central value expected %.17g got %.17g" % (m, got["value"]))
    return None


def _short(x):
    x = list(x) if x is not None else None
    if x is None or len(x) <= 8:
        return repr(x)
    return "[%s, %s, ... %s] (%d)" % (x[0], x[1], x[-1], len(x))


def sorted_reps(reps, call=None):
    """order in which the reader sees the replicas: by replica number, or the caller's explicit file order
    (positional arguments such as r_start / r_stop / names refer to this order)."""
    if call is not None and "files" in call and all(isinstance(f, str) for f in call["files"]):
        byfile = {rp["file"]: i for i, rp in enumerate(reps) if "file" in rp}
        if all(f in byfile for f in call["files"]):
            return [byfile[f] for f in call["files"]]
    return sorted(range(len(reps)), key=lambda i: reps[i]["k"])



def _bin_rep_names(p, call):
    """image index -> replica name, for the one-file-per-replica binary kinds"""
    order = sorted_reps(p["reps"], call)
    out = {}
    for pos, i in enumerate(order):
        out[i] = call["names"][pos] if "names" in call else "%s|r%d" % (p["ens"], p["reps"][i]["k"])
    return out

# =====================================================================================
class Rwms:
    rep_names = staticmethod(_bin_rep_names)
    name = "rwms"

    def gen(self, rng, small=False):
        ver = rng.choice(["1.4", "1.6", "2.0"])
        nrw = rng.randint(1, 3)
        p = {"kind": "rwms", "version": ver, "nrw": nrw,
             "nfct": [rng.randint(1, 3) if ver != "1.4" else 1 for _ in range(nrw)],
             "nsrc": [rng.randint(1, 3) for _ in range(nrw)],
             "ens": rng.choice(ENS_IDS), "postfix": rng.choice(["ms1", "rwms", ""]),
             "data_seed": rng.getrandbits(32), "reps": gen_reps(rng, small)}
        for rp in p["reps"]:
            rp["file"] = "%sr%d%s.dat" % (p["ens"], rp["k"], "." + p["postfix"] if p["postfix"] else "")
        p["distractors"] = rng.random() < 0.5
        p["calls"] = [self.gen_call(rng, p) for _ in range(rng.randint(1, 3))]
        return p

    def gen_call(self, rng, p):
        c = {"perm_seed": rng.getrandbits(30) if rng.random() < 0.85 else None}
        R = len(p["reps"])
        order = sorted_reps(p["reps"])
        cls = []
        for i in order:
            rp = p["reps"][i]
            stored = [rp["first"] + k * rp["spacing"] for k in range(rp["nrec"])]
            cls.append(cfg_numbers(stored, rp["spacing"], lambda c0, sp: c0 > 1 and sp > 1))
        sel = rng.choice(["none", "none", "start", "stop", "startstop", "step", "all", "invalid"])
        c["sel"] = sel
        if sel in ("start", "startstop", "all"):
            c["r_start"] = [rng.choice(cl[:max(1, len(cl) - 5)] + [0]) for cl in cls]
        if sel in ("stop", "startstop", "all"):
            c["r_stop"] = [rng.choice(cl[min(len(cl) - 1, 4):]) for cl in cls]
        if sel in ("step", "all"):
            c["r_step"] = rng.choice([1, 2, 3])
        if sel == "invalid":
            which = rng.choice(["r_start", "r_stop"])
            c[which] = [cl[-1] + rng.randint(1, 50) for cl in cls]
        if rng.random() < 0.3:
            c["names"] = ["%s|r%d" % ("Yens", p["reps"][i]["k"]) for i in order]
        if rng.random() < 0.25:
            c["files"] = [p["reps"][i]["file"] for i in order]
            if "names" not in c and rng.random() < 0.5:
                rng.shuffle(c["files"])      # caller-chosen order of explicitly given files (names still come from the file names)
                c["sel"] = c.get("sel", "none") + "+files_unsorted"
        return c

    def images(self, p):
        out = []
        for i in range(len(p["reps"])):
            img, model = formats.write_rwms(p, i)
            out.append((img, i, model))
        return out

    def extra_files(self, p):
        if p.get("distractors"):
            return {"ZZ" + p["reps"][0]["file"]: b"\x00" * 7, "sub/" + p["reps"][0]["file"]: b"junk"}
        return {}

    def expect(self, p, models, nrecs, call):
        order = sorted_reps(p["reps"], call)
        names, cfgs, vals = [], [], [[] for _ in range(p["nrw"])]
        for pos, i in enumerate(order):
            rp = p["reps"][i]
            recs = models[i][:nrecs[i]]
            if nrecs[i] < 0 or len(recs) < 2:
                return None
            stored = [r["cfg"] for r in recs]
            cl = cfg_numbers(stored, rp["spacing"], lambda c0, sp: c0 > 1 and sp > 1)
            idx = select(cl, (call.get("r_start") or [None] * len(order))[pos], (call.get("r_stop") or [None] * len(order))[pos], call.get("r_step", 1))
            if idx is None or len(idx) < 5:
                return None
            cfgs.append(list(range(cl[idx[0]], cl[idx[-1]] + 1, call.get("r_step", 1))))
            if "names" in call:
                names.append(call["names"][pos])
            else:
                names.append("%s|r%d" % (p["ens"], rp["k"]))
            for t in range(p["nrw"]):
                v = []
                for k in idx:
                    f = 1.0
                    for row in recs[k]["lnr"][t]:
                        f *= float(np.mean(np.exp(-np.asarray(row))))
                    v.append(f)
                vals[t].append(v)
        return {"rw%d" % t: ospec_from(names, cfgs, vals[t]) for t in range(p["nrw"])}

    def invoke(self, p, d, call):
        import pyerrors as pe
        kw = {}
        for k in ("r_start", "r_stop", "r_step", "names", "files"):
            if k in call:
                kw[k] = list(call[k]) if isinstance(call[k], list) else call[k]
        if p["postfix"]:
            kw["postfix"] = p["postfix"]
        res = pe.input.openQCD.read_rwms(d, p["ens"], version=p["version"], **kw)
        return {"rw%d" % t: o for t, o in enumerate(res)}

    def component(self, p, call):
        return "read_rwms/" + p["version"]


# =====================================================================================
class Ms:
    rep_names = staticmethod(_bin_rep_names)
    """openQCD .ms.dat: energy density dictionary, t0, w0, topological charge."""
    name = "ms"

    def gen(self, rng, small=False):
        what = rng.choice(["E", "E", "qtop", "qtop", "t0", "w0", "sector"])
        if small and what in ("t0", "w0"):
            what = "E"
        tmax = rng.choice([4, 6, 8])
        p = {"kind": "ms", "what": what, "tmax": tmax, "dn": rng.choice([1, 2, 5]), "eps": rng.choice([0.01, 0.02, 0.05]),
             "L": rng.choice([4, 6, 8]), "ens": rng.choice(ENS_IDS), "data_seed": rng.getrandbits(32)}
        if what in ("t0", "w0"):
            p["n0"] = rng.randint(6, 8)   # zero crossing far enough from t=0 (where t^2 E has no error)
            p["nn"] = p["n0"] + rng.randint(5, 7)
            p["reps"] = gen_reps(rng, small, nmin=8, nmax=16)
        else:
            p["nn"] = rng.randint(1, 4)
            p["reps"] = gen_reps(rng, small)
        for rp in p["reps"]:
            rp["file"] = "%sr%d.ms.dat" % (p["ens"], rp["k"])
        p["calls"] = [self.gen_call(rng, p) for _ in range(rng.randint(1, 3))]
        return p

    def _cls(self, p, at=True):
        order = sorted_reps(p["reps"])
        out = []
        for i in order:
            rp = p["reps"][i]
            stored = [rp["first"] + k * rp["spacing"] for k in range(rp["nrec"])]
            out.append(cfg_numbers(stored, rp["spacing"], (lambda c0, sp: c0 > 1) if at else (lambda c0, sp: False)))
        return out

    def gen_call(self, rng, p):
        c = {"perm_seed": rng.getrandbits(30) if rng.random() < 0.85 else None}
        order = sorted_reps(p["reps"])
        what = p["what"]
        at = True
        if what in ("E", "t0", "w0"):
            c["xmin"] = rng.randint(0, p["tmax"] // 2 - 1)
            c["plaquette"] = rng.random() < 0.3
            if rng.random() < 0.25:
                at = False
                c["assume_thermalization"] = False
            g = 0
            for rp in p["reps"]:
                g = math.gcd(g, math.gcd(rp["first"], rp["spacing"]))
            divs = [d for d in range(1, max(g, 1) + 1) if g % d == 0] if g else [1]
            c["dtr_read"] = rng.choice(divs)
            if what != "E":
                c["fit_range"] = rng.choice([2, 3, 5])
        else:
            nmax = p["nn"]
            n_aim = rng.randint(0, nmax)
            # c such that round((c L)^2/8/eps/dn) == n_aim robustly
            t_aim = (n_aim + rng.choice([-0.3, 0.0, 0.3])) * p["eps"] * p["dn"]
            c["c"] = math.sqrt(8 * max(t_aim, 0.0)) / p["L"]
            c["n_aim"] = n_aim
            c["integer_charge"] = rng.random() < 0.3
            if what == "sector":
                c["target"] = rng.choice([0, 0, 1, -1])
            if rng.random() < 0.2:
                c["steps_ok"] = True
        cls = self._cls(p, at)
        sel = rng.choice(["none", "none", "start", "stop", "startstop", "step", "invalid"])
        if what in ("qtop", "sector") and sel == "step":
            sel = "startstop"
        c["sel"] = sel
        if sel in ("start", "startstop"):
            c["r_start"] = [rng.choice(cl[:max(1, len(cl) - 5)] + [0]) for cl in cls]
        if sel in ("stop", "startstop"):
            c["r_stop"] = [rng.choice(cl[min(len(cl) - 1, 4):]) for cl in cls]
        if sel == "step":
            c["r_step"] = rng.choice([1, 2, 3])
        if sel == "invalid":
            which = rng.choice(["r_start", "r_stop"])
            c[which] = [cl[-1] + rng.randint(1, 50) for cl in cls]
        if rng.random() < 0.3:
            c["names"] = ["%s|r%d" % ("Yens", p["reps"][i]["k"]) for i in order]
        if rng.random() < 0.25:
            c["files"] = [p["reps"][i]["file"] for i in order]
            if "names" not in c and rng.random() < 0.5:
                rng.shuffle(c["files"])      # caller-chosen order of explicitly given files (names still come from the file names)
                c["sel"] = c.get("sel", "none") + "+files_unsorted"
        return c

    def images(self, p):
        out = []
        for i in range(len(p["reps"])):
            img, model = formats.write_ms(p, i)
            out.append((img, i, model))
        return out

    def extra_files(self, p):
        return {}

    def _base(self, p, models, nrecs, call):
        """-> names, cfgs, per-replica selected records  or None"""
        order = sorted_reps(p["reps"], call)
        what = p["what"]
        names, cfgs, sel = [], [], []
        steps = None
        for pos, i in enumerate(order):
            rp = p["reps"][i]
            recs = models[i][:nrecs[i]]
            if nrecs[i] < 0 or len(recs) < 2:
                return None
            stored = [r["traj"] for r in recs]
            if what in ("E", "t0", "w0"):
                at = call.get("assume_thermalization", True)
                cl = cfg_numbers(stored, rp["spacing"], (lambda c0, sp: c0 > 1) if at else (lambda c0, sp: False))
            else:
                if steps is None:
                    steps = rp["spacing"]
                # 'steps' is taken from the first file and reused for all replicas by the reader's documented
                # contract (distance between two configurations); replicas with another spacing are outside it
                if rp["spacing"] != steps:
                    return "undefined"
                cl = cfg_numbers(stored, rp["spacing"], lambda c0, sp: c0 > 1)
            idx = select(cl, (call.get("r_start") or [None] * len(order))[pos], (call.get("r_stop") or [None] * len(order))[pos], call.get("r_step", 1))
            if idx is None or len(idx) < 5:
                return None
            cfgs.append(list(range(cl[idx[0]], cl[idx[-1]] + 1, call.get("r_step", 1))))
            names.append(call["names"][pos] if "names" in call else "%s|r%d" % (p["ens"], rp["k"]))
            sel.append([recs[k] for k in idx])
        return names, cfgs, sel

    def expect(self, p, models, nrecs, call):
        b = self._base(p, models, nrecs, call)
        if b is None or b == "undefined":
            return b
        names, cfgs, sel = b
        what = p["what"]
        tmax, nn = p["tmax"], p["nn"]
        if what in ("E", "t0", "w0"):
            xmin = call["xmin"]
            key = "W" if call.get("plaquette") else "Y"
            out = {}
            for n in range(nn + 1):
                vals = [[float(np.mean(r[key][n][xmin:tmax - xmin])) / p["L"] ** 3 for r in recs] for recs in sel]
                out["E%d" % n] = ospec_from(names, cfgs, vals)
            return out
        n_aim = call["n_aim"]
        vals = []
        for recs in sel:
            v = [sum(r["Q"][n_aim]) for r in recs]
            if call.get("integer_charge") or what == "sector":
                v = [round(q) for q in v]
            if what == "sector":
                v = [1 if q == call["target"] else 0 for q in v]
            vals.append(v)
        return {"Q": ospec_from(names, cfgs, vals)}

    def invoke(self, p, d, call):
        import pyerrors as pe
        oq = pe.input.openQCD
        kw = {}
        for k in ("r_start", "r_stop", "r_step", "names", "files", "assume_thermalization"):
            if k in call:
                kw[k] = list(call[k]) if isinstance(call[k], list) else call[k]
        what = p["what"]
        if what in ("E", "t0", "w0"):
            if call.get("plaquette"):
                kw["plaquette"] = True
            E = oq._extract_flowed_energy_density(d, p["ens"], call["dtr_read"], call["xmin"], p["L"], **kw)
            out = {}
            keys = sorted(E.keys())
            for n, k in enumerate(keys):
                if k != n * p["dn"] * p["eps"]:
                    raise AssertionError("flow-time key %r != %r" % (k, n * p["dn"] * p["eps"]))
                out["E%d" % n] = E[k]
            if what == "t0":
                out["__t0"] = oq.extract_t0(d, p["ens"], call["dtr_read"], call["xmin"], p["L"], fit_range=call["fit_range"], **kw)
            if what == "w0":
                out["__w0"] = oq.extract_w0(d, p["ens"], call["dtr_read"], call["xmin"], p["L"], fit_range=call["fit_range"], **kw)
            return out
        if call.get("integer_charge"):
            kw["integer_charge"] = True
        if call.get("steps_ok"):
            kw["steps"] = p["reps"][sorted_reps(p["reps"])[0]]["spacing"]
        if what == "sector":
            kw.pop("integer_charge", None)
            return {"Q": oq.read_qtop_sector(d, p["ens"], call["c"], target=call["target"], L=p["L"], **kw)}
        return {"Q": oq.read_qtop(d, p["ens"], call["c"], L=p["L"], **kw)}

    def derived(self, p, call, exp_obs):
        """differential oracle for t0 / w0: same downstream code applied to observables built from the model."""
        from pyerrors.input.misc import fit_t0
        ft = [n * p["dn"] * p["eps"] for n in range(p["nn"] + 1)]
        E = {t: exp_obs["E%d" % n] for n, t in enumerate(ft)}
        if p["what"] == "t0":
            return {"__t0": fit_t0({t: t ** 2 * E[t] - 0.3 for t in ft}, call["fit_range"])}
        t2E = {t: t ** 2 * E[t] for t in ft}
        dd = {}
        dd[ft[0]] = ft[0] * (t2E[ft[1]] - t2E[ft[0]]) / (ft[1] - ft[0]) - 0.3
        for i in range(1, len(ft) - 1):
            dd[ft[i]] = ft[i] * (t2E[ft[i + 1]] - t2E[ft[i - 1]]) / (ft[i + 1] - ft[i - 1]) - 0.3
        dd[ft[-1]] = ft[-1] * (t2E[ft[-1]] - t2E[ft[-2]]) / (ft[-1] - ft[-2]) - 0.3
        return {"__w0": np.sqrt(fit_t0(dd, call["fit_range"], observable="w0"))}

    def component(self, p, call):
        return {"E": "_extract_flowed_energy_density", "t0": "extract_t0", "w0": "extract_w0", "qtop": "read_qtop/openQCD",
                "sector": "read_qtop_sector/openQCD"}[p["what"]]


# =====================================================================================
class Gfms:
    rep_names = staticmethod(_bin_rep_names)
    """sfqcd .gfms.dat: topological charge (Wilson/Zeuthen flow) and gradient-flow coupling."""
    name = "gfms"

    def gen(self, rng, small=False):
        what = rng.choice(["qtop", "qtop", "coupling", "sector"])
        if what == "coupling":
            L = rng.choice([4, 6, 8])
            tmax = L + 1
        else:
            L = rng.choice([4, 6, 8, 12])
            tmax = rng.choice([3, 4, 5, 8])
        p = {"kind": "gfms", "what": what, "tmax": tmax, "L": L, "ncs": rng.randint(1, 3) if what != "coupling" else rng.choice([1, 2, 3]),
             "tol": 1e-6, "ens": rng.choice(ENS_IDS), "data_seed": rng.getrandbits(32)}
        if what == "coupling":
            p["cmax"] = rng.choice([0.3, 0.45, 0.6])
        else:
            p["cmax"] = rng.choice([0.3, 0.5, 0.6])
        p["reps"] = gen_reps(rng, small)
        sp = p["reps"][0]["spacing"]
        for rp in p["reps"]:
            rp["spacing"] = sp          # reader contract: one common distance between configurations ('steps')
            rp["file"] = "%sr%d.gfms.dat" % (p["ens"], rp["k"])
        p["calls"] = [self.gen_call(rng, p) for _ in range(rng.randint(1, 3))]
        return p

    def gen_call(self, rng, p):
        c = {"perm_seed": rng.getrandbits(30) if rng.random() < 0.85 else None}
        order = sorted_reps(p["reps"])
        cst = p["cmax"] / p["ncs"]
        if p["what"] == "coupling":
            c["c"] = 0.3
            c["j_aim"] = round(0.3 / cst)
        else:
            j = rng.randint(0, p["ncs"])
            c["j_aim"] = j
            c["c"] = min(p["cmax"], max(0.0, (j + rng.choice([-0.3, 0, 0.3])) * cst))
            c["j_aim"] = round(c["c"] / cst)
        c["zeuthen"] = rng.random() < 0.5 if p["what"] != "coupling" else True
        if p["what"] == "qtop":
            c["integer_charge"] = rng.random() < 0.3
        if p["what"] == "sector":
            c["target"] = rng.choice([0, 0, 1, -1])
        cls = []
        for i in order:
            rp = p["reps"][i]
            stored = [rp["first"] + k * rp["spacing"] for k in range(rp["nrec"])]
            cls.append(cfg_numbers(stored, rp["spacing"], lambda c0, sp: c0 > 1))
        sel = rng.choice(["none", "none", "start", "stop", "startstop", "invalid"])
        c["sel"] = sel
        if sel in ("start", "startstop"):
            c["r_start"] = [rng.choice(cl[:max(1, len(cl) - 5)] + [0]) for cl in cls]
        if sel in ("stop", "startstop"):
            c["r_stop"] = [rng.choice(cl[min(len(cl) - 1, 4):]) for cl in cls]
        if sel == "invalid":
            which = rng.choice(["r_start", "r_stop"])
            c[which] = [cl[-1] + rng.randint(1, 50) for cl in cls]
        if rng.random() < 0.3:
            c["names"] = ["%s|r%d" % ("Yens", p["reps"][i]["k"]) for i in order]
        if rng.random() < 0.25:
            c["files"] = [p["reps"][i]["file"] for i in order]
        if rng.random() < 0.2:
            c["give_L"] = True
        return c

    def images(self, p):
        out = []
        for i in range(len(p["reps"])):
            img, model = formats.write_gfms(p, i)
            out.append((img, i, model))
        return out

    def extra_files(self, p):
        return {}

    NORM = {4: 0.012341170468270, 6: 0.010162691462430, 8: 0.009031614807931}

    def expect(self, p, models, nrecs, call):
        order = sorted_reps(p["reps"], call)
        names, cfgs, vals = [], [], []
        tmax = p["tmax"]
        for pos, i in enumerate(order):
            rp = p["reps"][i]
            recs = models[i][:nrecs[i]]
            if nrecs[i] < 0 or len(recs) < 2:
                return None
            cl = cfg_numbers([r["traj"] for r in recs], rp["spacing"], lambda c0, sp: c0 > 1)
            idx = select(cl, (call.get("r_start") or [None] * len(order))[pos], (call.get("r_stop") or [None] * len(order))[pos], 1)
            if idx is None or len(idx) < 5:
                return None
            cfgs.append(list(range(cl[idx[0]], cl[idx[-1]] + 1)))
            names.append(call["names"][pos] if "names" in call else "%s|r%d" % (p["ens"], rp["k"]))
            j = call["j_aim"]
            off = 0 if call["zeuthen"] else 8
            v = []
            for k in idx:
                o = recs[k]["obs"][j]
                if p["what"] == "coupling":
                    t = (0.3 * p["L"]) ** 2 / 8
                    plaq = o[6 + off][int(tmax / 2)]
                    c2 = o[7 + off][int(tmax / 2)]
                    v.append(t * t * (5 / 3 * plaq - 1 / 12 * c2) / self.NORM[p["L"]])
                else:
                    q = sum(o[0 + off])
                    if call.get("integer_charge") or p["what"] == "sector":
                        q = round(q)
                    if p["what"] == "sector":
                        q = 1 if q == call["target"] else 0
                    v.append(q)
            vals.append(v)
        return {"Q": ospec_from(names, cfgs, vals)}

    def invoke(self, p, d, call):
        import pyerrors as pe
        oq = pe.input.openQCD
        kw = {}
        for k in ("r_start", "r_stop", "names", "files"):
            if k in call:
                kw[k] = list(call[k])
        if call.get("give_L"):
            kw["L"] = p["L"]
        if p["what"] == "coupling":
            return {"Q": oq.read_gf_coupling(d, p["ens"], call["c"], Zeuthen_flow=True, **kw)}
        if p["what"] == "sector":
            return {"Q": oq.read_qtop_sector(d, p["ens"], call["c"], target=call["target"], version="sfqcd", Zeuthen_flow=call["zeuthen"], **kw)}
        if call.get("integer_charge"):
            kw["integer_charge"] = True
        o = oq.read_qtop(d, p["ens"], call["c"], version="sfqcd", Zeuthen_flow=call["zeuthen"], **kw)
        if o.tag != {"T": p["tmax"] - 1, "L": p["L"]}:
            raise AssertionError("tag %r" % (o.tag,))
        return {"Q": o}

    def component(self, p, call):
        return {"qtop": "read_qtop/sfqcd", "coupling": "read_gf_coupling", "sector": "read_qtop_sector/sfqcd"}[p["what"]]


# =====================================================================================
class Ms5:
    name = "ms5"

    def gen(self, rng, small=False):
        p = {"kind": "ms5", "tmax": rng.choice([2, 3, 4, 6]), "ens": rng.choice(["T24L16", "ms5_xsf_T24L16", "X-b", "E250"]),
             "qc": rng.choice(["dd", "ud", "du", "uu"]), "data_seed": rng.getrandbits(32)}
        big = (not small) and rng.random() < 0.12          # files of several hundred kB: longer than any read-ahead buffer or block size
        if big:
            p["tmax"] = rng.choice([24, 32])
        R = rng.choice([1, 1, 2, 2, 3])
        ks = sorted(rng.sample(REPNUMS, R))
        reps = []
        for k in ks:
            nrec = rng.randint(5, 8 if small else 40) if not big else rng.randint(20, 40)
            mode = rng.choice(["contig", "stride", "irregular"])
            first = rng.randint(0, 30)
            if mode == "contig":
                cfgs = list(range(first, first + nrec))
            elif mode == "stride":
                s = rng.choice([2, 3, 10])
                cfgs = list(range(first, first + s * nrec, s))
            else:
                cfgs = sorted(rng.sample(range(first, first + 3 * nrec), nrec))
            reps.append({"k": k, "nrec": nrec, "cfgs": cfgs, "file": "%sr%d.ms5_xsf_%s.dat" % (p["ens"], k, p["qc"])})
        p["reps"] = reps
        p["calls"] = [self.gen_call(rng, p) for _ in range(rng.randint(1, 3))]
        return p

    def rep_names(self, p, call):
        out = {}
        for pos, i in enumerate(self._order(p)):
            out[i] = sorted(call["names"])[pos] if "names" in call else "%s|r%d" % (p["ens"], p["reps"][i]["k"])
        return out

    def _order(self, p):
        # the reader sorts file names alphabetically
        return sorted(range(len(p["reps"])), key=lambda i: p["reps"][i]["file"])

    def gen_call(self, rng, p):
        c = {"perm_seed": rng.getrandbits(30) if rng.random() < 0.85 else None,
             "corr": rng.choice(formats.MS5_BI + formats.MS5_BB)}
        order = self._order(p)
        sel = rng.choice(["none", "none", "idl", "idl", "idl_missing", "idl_none"])
        c["sel"] = sel
        if sel == "idl":
            c["idl"] = []
            for i in order:
                cf = p["reps"][i]["cfgs"]
                m = rng.randint(5, len(cf))
                c["idl"].append(sorted(rng.sample(cf, m)))
        elif sel == "idl_missing":
            c["idl"] = []
            for i in order:
                cf = p["reps"][i]["cfgs"]
                c["idl"].append(sorted(set(cf) | {cf[-1] + 7}))
        elif sel == "idl_none":
            c["idl"] = [[p["reps"][i]["cfgs"][-1] + 3, p["reps"][i]["cfgs"][-1] + 9] for i in order]
        if rng.random() < 0.3:
            c["names"] = ["%s|r%d" % ("Yens", p["reps"][i]["k"]) for i in order]
        if rng.random() < 0.25:
            c["files"] = [p["reps"][i]["file"] for i in order]
            if "names" not in c and rng.random() < 0.5:
                rng.shuffle(c["files"])      # caller-chosen order of explicitly given files (names still come from the file names)
                c["sel"] = c.get("sel", "none") + "+files_unsorted"
        return c

    def images(self, p):
        out = []
        for i in range(len(p["reps"])):
            img, model = formats.write_ms5(p, i)
            out.append((img, i, model))
        return out

    def extra_files(self, p):
        return {}

    def expect(self, p, models, nrecs, call):
        order = self._order(p)
        names, cfgs = [], []
        bi = call["corr"] in formats.MS5_BI
        T = p["tmax"] if bi else 1
        re_v = [[] for _ in range(T)]
        im_v = [[] for _ in range(T)]
        for pos, i in enumerate(order):
            rp = p["reps"][i]
            if nrecs[i] < 0:
                return None
            recs = models[i][:nrecs[i]]
            if "idl" in call:
                want = set(call["idl"][pos])
                recs = [r for r in recs if r["cfg"] in want]
            if len(recs) < 5:
                return None
            cfgs.append([r["cfg"] for r in recs])
            if "names" in call:
                names.append(sorted(call["names"])[pos])
            else:
                names.append("%s|r%d" % (p["ens"], rp["k"]))
            for t in range(T):
                if bi:
                    re_v[t].append([r["bi"][call["corr"]][t][0] for r in recs])
                    im_v[t].append([r["bi"][call["corr"]][t][1] for r in recs])
                else:
                    re_v[t].append([r["bb"][call["corr"]][0] for r in recs])
                    im_v[t].append([r["bb"][call["corr"]][1] for r in recs])
        out = {}
        for t in range(T):
            out["t%d.re" % t] = ospec_from(names, cfgs, re_v[t])
            out["t%d.im" % t] = ospec_from(names, cfgs, im_v[t])
        return out

    def invoke(self, p, d, call):
        import pyerrors as pe
        kw = {}
        for k in ("names", "files", "idl"):
            if k in call:
                kw[k] = [list(x) if isinstance(x, list) else x for x in call[k]]
        res = pe.input.openQCD.read_ms5_xsf(d, p["ens"], p["qc"], call["corr"], **kw)
        out = {}
        if isinstance(res, pe.CObs):
            out["t0.re"], out["t0.im"] = res.real, res.imag
        else:
            if res.T != p["tmax"]:
                raise AssertionError("T=%d" % res.T)
            for t in range(res.T):
                out["t%d.re" % t] = res.content[t][0].real
                out["t%d.im" % t] = res.content[t][0].imag
        return out

    def component(self, p, call):
        return "read_ms5_xsf"


# =====================================================================================
class Pbp:
    """chiral condensate files of input.misc.read_pbp: header nrw, nfct[nrw], nsrc[nrw]; per configuration the number and,
    per factor and Hasenbusch level, two blocks of nsrc doubles of which the second is used (plain source average,
    product over the levels).  The reader has no configuration-number support: samples are labelled 1..n in file
    order, so the stub writes consecutive configurations starting at 1 and the calls use r_stop only (with r_start the
    reader relabels the kept samples from 1 - outside the formats C17 lists, noted in DESIGN 6.5)."""
    rep_names = staticmethod(_bin_rep_names)
    name = "pbp"

    def gen(self, rng, small=False):
        nrw = rng.randint(1, 3)
        p = {"kind": "pbp", "version": "1.6", "nrw": nrw, "nfct": [rng.randint(1, 3) for _ in range(nrw)], "nsrc": [rng.randint(1, 3) for _ in range(nrw)],
             "ens": rng.choice(ENS_IDS), "data_seed": rng.getrandbits(32), "reps": gen_reps(rng, small)}
        for rp in p["reps"]:
            rp["first"], rp["spacing"] = 1, 1
            rp["file"] = "%sr%d.pbp.dat" % (p["ens"], rp["k"])
        p["distractors"] = rng.random() < 0.5
        p["calls"] = [self.gen_call(rng, p) for _ in range(rng.randint(1, 3))]
        return p

    def gen_call(self, rng, p):
        c = {"perm_seed": rng.getrandbits(30) if rng.random() < 0.85 else None}
        order = sorted_reps(p["reps"])
        sel = rng.choice(["none", "none", "stop", "stop", "start1", "short"])
        c["sel"] = sel
        if sel in ("stop", "start1"):
            c["r_stop"] = [rng.randint(5, p["reps"][i]["nrec"]) for i in order]
        if sel == "start1":
            c["r_start"] = [rng.choice([0, 1]) for i in order]       # 0 / 1: from the first configuration
        if sel == "short":
            c["r_stop"] = [rng.randint(5, p["reps"][i]["nrec"]) for i in order][:-1] + ([7, 7] if rng.random() < 0.5 else [])
        return c

    def images(self, p):
        out = []
        for i in range(len(p["reps"])):
            img, model = formats.write_rwms(p, i)
            out.append((img, i, model))
        return out

    def extra_files(self, p):
        if p.get("distractors"):
            return {p["reps"][0]["file"][:-4] + ".txt": b"\x00" * 7, "sub/" + p["reps"][0]["file"]: b"junk", "ZZ" + p["reps"][0]["file"]: b"\x01\x00\x00"}
        return {}

    def expect(self, p, models, nrecs, call):
        order = sorted_reps(p["reps"], call)
        for key in ("r_start", "r_stop"):
            if key in call and len(call[key]) != len(order):
                return None
        names, cfgs, vals = [], [], [[] for _ in range(p["nrw"])]
        for pos, i in enumerate(order):
            recs = models[i][:nrecs[i]]
            if nrecs[i] < 0:
                return None
            stop = (call.get("r_stop") or [None] * len(order))[pos]
            keep = recs[:stop] if stop is not None else recs
            if len(keep) < 5:
                return None
            cfgs.append(list(range(1, len(keep) + 1)))
            names.append("%s|r%d" % (p["ens"], p["reps"][i]["k"]))
            for t in range(p["nrw"]):
                v = []
                for r in keep:
                    f = 1.0
                    for row in r["lnr"][t]:
                        f *= float(np.mean(np.asarray(row)))
                    v.append(f)
                vals[t].append(v)
        return {"pbp%d" % t: ospec_from(names, cfgs, vals[t]) for t in range(p["nrw"])}

    def invoke(self, p, d, call):
        import contextlib
        import io
        import pyerrors as pe
        kw = {k: list(call[k]) for k in ("r_start", "r_stop") if k in call}
        with contextlib.redirect_stdout(io.StringIO()):
            res = pe.input.misc.read_pbp(d, p["ens"], **kw)
        return {"pbp%d" % t: o for t, o in enumerate(res)}

    def component(self, p, call):
        return "read_pbp"


KINDS = {}
for _k in (Rwms(), Ms(), Gfms(), Ms5(), Pbp()):
    KINDS[_k.name] = _k


# =====================================================================================
class Sfcf:
    """sfcf text correlators in separate (o), compact (c) and appended (a) layout."""
    name = "sfcf"
    NAMES = {"f_A": "bi", "f_P": "bi", "k_V": "bi", "F_V0": "bib", "K_T": "bib", "f_1": "bb", "k_1": "bb"}

    def gen(self, rng, small=False):
        layout = rng.choice(["o", "c", "a"])
        T = rng.randint(1, 4)
        ens = rng.choice(["data_", "test", "A654", "N300k_", "sf2"])
        sepstyle = rng.choice(["_r", "_r", "r", "x"])
        cfgsep = rng.choice(["n", "n", "c"])
        names = rng.sample(sorted(self.NAMES), rng.randint(1, 3))
        blocks = []
        for nm in names:
            ty = self.NAMES[nm]
            quarks = rng.sample(["lquark lquark", "lquark squark", "squark squark"], rng.randint(1, 2))
            offs = rng.sample([0, 1, 2], rng.randint(1, 2))
            wfs = rng.sample([0, 1, 2], rng.randint(1, 2))
            wf2s = rng.sample([0, 1, 2], rng.randint(1, 2)) if ty != "bi" else [None]
            combos = [(q, o, w, w2) for q in quarks for o in offs for w in wfs for w2 in wf2s]
            rng.shuffle(combos)
            for (q, o, w, w2) in combos[:rng.randint(1, 4)]:
                b = {"name": nm, "quarks": q, "off": o, "wf": w, "type": ty}
                if w2 is not None:
                    b["wf2"] = w2
                blocks.append(b)
        if layout == "c":
            rng.shuffle(blocks)     # compact files interleave correlator names
        if sepstyle == "x":
            ens = ens.replace("x", "y")
        p = {"kind": "sfcf", "layout": layout, "T": T, "ens": ens, "blocks": blocks, "data_seed": rng.getrandbits(32),
             "version": rng.choice(["1.0", "2.0"]), "rep_sep": "x" if sepstyle == "x" else "r", "cfgsep": cfgsep}
        R = rng.choice([1, 1, 2, 2, 3])
        ks = sorted(rng.sample(REPNUMS, R))
        reps = []
        for k in ks:
            nrec = rng.randint(5, 7 if small else 14)
            mode = rng.choice(["contig", "contig", "stride", "irregular"])
            first = rng.randint(1, 30)
            if mode == "contig":
                cfgs = list(range(first, first + nrec))
            elif mode == "stride":
                s = rng.choice([2, 5, 10])
                cfgs = list(range(first, first + s * nrec, s))
            else:
                cfgs = sorted(rng.sample(range(first, first + 3 * nrec), nrec))
            reps.append({"k": k, "nrec": nrec, "cfgs": cfgs, "dir": "%s%s%d" % (ens, sepstyle, k)})
        p["reps"] = reps
        p["distractors"] = layout != "a" and rng.random() < 0.5
        p["calls"] = [self.gen_call(rng, p) for _ in range(rng.randint(1, 3))]
        return p

    def gen_call(self, rng, p):
        c = {"perm_seed": rng.getrandbits(30) if rng.random() < 0.85 else None}
        if p["layout"] == "a":
            # the appended reader can only address the first correlator of a chunk (observed limitation, DESIGN App. A)
            firsts = {}
            for bi, b in enumerate(p["blocks"]):
                firsts.setdefault(b["name"], bi)
            bi = rng.choice(sorted(firsts.values()))
        else:
            bi = rng.randrange(len(p["blocks"]))
        b = p["blocks"][bi]
        c["block"] = bi
        c["im"] = rng.random() < 0.3
        if p["layout"] != "a" and rng.random() < 0.3:
            # read_sfcf_multi: all blocks that differ from the chosen one only in the wave function id
            sib = [k for k, bb in enumerate(p["blocks"]) if all(bb.get(f) == b.get(f) for f in ("name", "quarks", "off", "type")) and (b["type"] == "bi" or bb.get("wf2") == b.get("wf2"))]
            c["multi"] = sorted(sib)
            c["keyed_out"] = rng.random() < 0.5
        c["quarks_explicit"] = True
        c["sel"] = "none"
        r = rng.random()
        order = sorted_reps(p["reps"])
        if r < 0.2:
            c["names"] = ["%s|r%d" % ("Yens", p["reps"][i]["k"]) for i in order]
            c["sel"] = "names"
        elif r < 0.4:
            c["ens_name"] = "Zens"
            c["sel"] = "ens_name"
        elif r < 0.55 and p["layout"] != "a":
            # explicit file lists per replica (a subset of >= 5 configurations)
            fl = []
            for i in order:
                rp = p["reps"][i]
                m = rng.randint(5, len(rp["cfgs"]))
                sub = sorted(rng.sample(rp["cfgs"], m))
                if p["layout"] == "o":
                    fl.append(["cfg%d" % n for n in sub])
                else:
                    fl.append(["%s_%s%d" % (rp["dir"], p.get("cfgsep", "n"), n) for n in sub])
                rng.shuffle(fl[-1])
            c["files"] = fl
            c["sel"] = "files"
        elif r < 0.65:
            c["replica"] = [p["reps"][i]["dir"] for i in order] if p["layout"] != "a" else None
            if c["replica"] is None:
                del c["replica"]
            else:
                c["sel"] = "replica"
        return c

    def nwriters(self, p):
        return len(self.images(p))

    def images(self, p):
        out = []
        idx = 0
        self._index = {}
        for i in range(len(p["reps"])):
            imgs, model = formats.sfcf_files(p, i)
            for img in imgs:
                out.append((img, idx, {"rep": i, "model": model}))
                idx += 1
        return out

    def extra_files(self, p):
        if p.get("distractors"):
            return {"other_x1/readme": b"x", p["reps"][0]["dir"] + "/zz_notes.txt": b"notes\n", p["reps"][0]["dir"] + "/zzdir/a": b"a"}
        return {}

    def _rep_name(self, p, rp, call, pos):
        if "names" in call:
            return call["names"][pos]
        d = rp["dir"]
        idx = d.index(p.get("rep_sep", "r"))
        if "ens_name" in call:
            return call["ens_name"] + "|" + d[idx:]
        return d[:idx] + "|" + d[idx:]

    def block_complete(self, p, img, cut, bi_in_file):
        """is record number bi_in_file of this image completely (incl. trailing newline of its last data line) before cut?"""
        if cut is None:
            return True
        b = img.boundaries()
        # the record's last byte is the blank line's newline; data ends one byte earlier
        return b[bi_in_file + 1] - 1 <= cut

    def expect(self, p, models, nrecs, call, cfgsets=None):
        """full-data expectation (optionally restricted to cfgsets[rep] lists)."""
        if "multi" in call:
            out = {}
            for bi in call["multi"]:
                sub = self.expect(p, models, nrecs, dict({k: v for k, v in call.items() if k != "multi"}, block=bi), cfgsets)
                if sub is None:
                    return None
                for k, v in sub.items():
                    out["b%d.%s" % (bi, k)] = v
            return out
        order = sorted_reps(p["reps"])
        b = p["blocks"][call["block"]]
        T = 1 if b["type"] == "bb" else p["T"]
        names, cfgs = [], []
        vals = [[] for _ in range(T)]
        for pos, i in enumerate(order):
            rp = p["reps"][i]
            cf = list(rp["cfgs"])
            if "files" in call:
                want = [int(re.findall(r"\d+", f)[-1]) for f in call["files"][pos]]
                cf = sorted(want)
            if cfgsets is not None:
                cf = [c for c in cf if c in cfgsets[i]]
            if len(cf) < 5:
                return None
            model = None
            for k, m in models.items():
                if m["rep"] == i:
                    model = m["model"]
                    break
            names.append(self._rep_name(p, rp, call, pos))
            cfgs.append(cf)
            for t in range(T):
                vals[t].append([model[c][call["block"]][t][1 if call["im"] else 0] for c in cf])
        return {"t%d" % t: ospec_from(names, cfgs, vals[t]) for t in range(T)}

    def invoke(self, p, d, call):
        import pyerrors as pe
        b = p["blocks"][call["block"]]
        kw = {}
        for k in ("names", "ens_name", "files", "replica"):
            if k in call:
                kw[k] = [list(x) if isinstance(x, list) else x for x in call[k]] if isinstance(call[k], list) else call[k]
        if call["im"]:
            kw["im"] = True
        if p.get("rep_sep", "r") != "r":
            kw["rep_string"] = p["rep_sep"]
        if p.get("cfgsep", "n") != "n":
            kw["cfg_separator"] = p["cfgsep"]
        ver = p["version"] + {"o": "", "c": "c", "a": "a"}[p["layout"]]
        if "multi" in call:
            bl = [p["blocks"][k] for k in call["multi"]]
            wfs = sorted(set(x["wf"] for x in bl))
            res = pe.input.sfcf.read_sfcf_multi(d, p["ens"], [b["name"]], quarks_list=[b["quarks"]], corr_type_list=[b["type"]], noffset_list=[b["off"]],
                                                wf_list=wfs, wf2_list=[b.get("wf2", 0)], version=ver, silent=True, keyed_out=call["keyed_out"], **kw)
            out = {}
            for k in call["multi"]:
                x = p["blocks"][k]
                if call["keyed_out"]:
                    r = res["/".join([x["name"], x["quarks"], str(x["off"]), str(x["wf"]), str(x.get("wf2", 0) if x["type"] != "bi" else 0)])]
                else:
                    r = res[x["name"]][x["quarks"]][str(x["off"])][str(x["wf"])][str(x.get("wf2", 0) if x["type"] != "bi" else 0)]
                for t, o in enumerate(r):
                    out["b%d.t%d" % (k, t)] = o
            return out
        res = pe.input.sfcf.read_sfcf(d, p["ens"], b["name"], quarks=b["quarks"], corr_type=b["type"], noffset=b["off"], wf=b["wf"],
                                      wf2=b.get("wf2", 0), version=ver, silent=True, **kw)
        return {"t%d" % t: o for t, o in enumerate(res)}

    def component(self, p, call):
        return "read_sfcf/%s/%s" % (p["layout"], p["blocks"][call["block"]]["type"])


# =====================================================================================
class Hadrons:
    """Hadrons meson hdf5 files, one file per configuration."""
    name = "hadrons"
    tree = True
    GAMMAS = [("Gamma5", "Gamma5"), ("GammaT", "Gamma5"), ("GammaX", "GammaX"), ("GammaTGamma5", "GammaTGamma5")]

    def gen(self, rng, small=False):
        n = rng.randint(5, 7 if small else 16)
        mode = rng.choice(["contig", "stride", "stride", "irregular"])
        first = rng.randint(0, 2000)
        if mode == "contig":
            cfgs = list(range(first, first + n))
        elif mode == "stride":
            s = rng.choice([2, 10, 40])
            cfgs = list(range(first, first + s * n, s))
        else:
            cfgs = sorted(rng.sample(range(first, first + 4 * n), n))
            if len(set(np.diff(cfgs))) == 1:
                cfgs[-1] += 1
        p = {"kind": "hadrons", "T": rng.randint(2, 6), "stem": rng.choice(["meson_prop", "pt2pt", "m.l"]), "ens": rng.choice(["A654", "ens|r1", "H105r005"]),
             "gammas": rng.sample(self.GAMMAS, rng.randint(1, 3)), "cfgs": cfgs, "mode": mode, "data_seed": rng.getrandbits(32),
             "distractors": rng.random() < 0.5}
        if type(self) is Hadrons:
            p["calls"] = [self.gen_call(rng, p) for _ in range(rng.randint(1, 3))]
        return p

    def gen_call(self, rng, p):
        c = {"perm_seed": rng.getrandbits(30) if rng.random() < 0.85 else None, "k": rng.randrange(len(p["gammas"])),
             "by_gammas": rng.random() < 0.5, "api": rng.choice(["meson", "meson", "hd5_real", "hd5_imag", "hd5_complex"])}
        cf = p["cfgs"]
        r = rng.random()
        c["sel"] = "none" if p["mode"] != "irregular" else "irregular_needs_idl"
        if p["mode"] == "irregular":
            if r < 0.7:
                c["idl"] = list(cf)
                c["sel"] = "idl_full_irregular"
        elif r < 0.3:
            # sub-range with the files' own stride
            s = cf[1] - cf[0]
            i0 = rng.randint(0, len(cf) - 5)
            i1 = rng.randint(i0 + 4, len(cf) - 1)
            m = rng.choice([1, 1, 2]) if (i1 - i0) >= 8 else 1
            c["idl"] = ["range", cf[i0], cf[i1] + 1, s * m]
            c["sel"] = "idl_range"
        elif r < 0.4:
            c["idl"] = ["range", cf[0], cf[-1] + 1 + (cf[1] - cf[0]) * 3, cf[1] - cf[0]]
            c["sel"] = "idl_missing"
        elif r < 0.5:
            c["idl"] = sorted(rng.sample(cf, rng.randint(5, len(cf))))
            c["sel"] = "idl_list"
        return c

    def nwriters(self, p):
        return 1

    def images(self, p):
        return []

    def write_all(self, p, d, cfgs=None):
        models = {}
        os.makedirs(d, exist_ok=True)
        for c in (p["cfgs"] if cfgs is None else cfgs):
            models[c] = formats.write_hadrons(p, c, os.path.join(d, "%s.%d.h5" % (p["stem"], c)))
        if p.get("distractors"):
            with open(os.path.join(d, "%s_other.%d.h5" % (p["stem"], p["cfgs"][0])), "wb") as f:
                f.write(b"not hdf5")
            with open(os.path.join(d, "notes.txt"), "wb") as f:
                f.write(b"x")
        return models

    def file_for(self, p, d, c, k=0):
        return os.path.join(d, "%s.%d.h5" % (p["stem"], c))

    def _idl(self, call):
        if "idl" not in call:
            return None
        if call["idl"] and call["idl"][0] == "range":
            return list(range(call["idl"][1], call["idl"][2], call["idl"][3]))
        return list(call["idl"])

    def expect(self, p, models, nrecs, call, present=None):
        cf = [c for c in p["cfgs"] if present is None or c in present]
        idl = self._idl(call)
        if idl is not None:
            if sorted(set(idl) - set(cf)):
                return None
            cf = [c for c in cf if c in set(idl)]
        if len(cf) < 5:
            return None
        if len(set(np.diff(cf))) != 1 and idl is None:
            return None
        k = call["k"]
        out = {}
        for t in range(p["T"]):
            if call["api"] in ("meson", "hd5_real", "hd5_complex"):
                out["t%d.re" % t] = ospec_from([p["ens"]], [cf], [[models[c][k][t][0] for c in cf]])
            if call["api"] in ("hd5_imag", "hd5_complex"):
                out["t%d.im" % t] = ospec_from([p["ens"]], [cf], [[models[c][k][t][1] for c in cf]])
        return out

    def invoke(self, p, d, call):
        import pyerrors as pe
        idl = None
        if "idl" in call:
            idl = range(call["idl"][1], call["idl"][2], call["idl"][3]) if call["idl"][0] == "range" else list(call["idl"])
        snk, src = p["gammas"][call["k"]]
        if call["api"] == "meson":
            if call["by_gammas"]:
                res = pe.input.hadrons.read_meson_hd5(d, p["stem"], p["ens"], gammas=(snk, src), idl=idl)
            else:
                res = pe.input.hadrons.read_meson_hd5(d, p["stem"], p["ens"], meson="meson_%d" % call["k"], idl=idl)
            part = "real"
        else:
            part = call["api"][4:]
            attrs = {"gamma_snk": snk, "gamma_src": src} if call["by_gammas"] else call["k"]
            res = pe.input.hadrons.read_hd5(d + "/" + p["stem"], p["ens"], "meson", attrs=attrs, idl=idl, part=part)
        if res.T != p["T"]:
            raise AssertionError("T=%d" % res.T)
        out = {}
        for t in range(res.T):
            e = res.content[t][0]
            if part == "complex":
                out["t%d.re" % t], out["t%d.im" % t] = e.real, e.imag
            elif part == "imag":
                out["t%d.im" % t] = e
            else:
                out["t%d.re" % t] = e
        return out

    def component(self, p, call):
        return "read_meson_hd5" if call["api"] == "meson" else "read_hd5/" + call["api"][4:]


class HadronsNpr(Hadrons):
    """Hadrons NPR hdf5 files (ExternalLeg, Bilinear, FourQuarkFullyConnected), one file per configuration; results are
    Npr_matrix arrays of complex observables, compared entry by entry (real and imaginary parts)."""
    name = "hadrons_npr"

    def gen(self, rng, small=False):
        p = Hadrons.gen(self, rng, small)
        fam = rng.choice(["extleg", "bilinear", "fourquark"])
        if fam == "fourquark":
            dims = [rng.choice([1, 2]) for _ in range(8)]
            while np.prod(dims) > 8:
                dims[rng.randrange(8)] = 1
        else:
            dims = rng.choice([[2, 2, 1, 1], [1, 2, 3, 1], [2, 2, 3, 3], [4, 4, 1, 1], [1, 1, 1, 1]])
        p.update({"kind": "hadrons_npr", "family": fam, "dims": dims, "stem": rng.choice(["ExternalLeg", "bilinear_p1", "fq.l"]),
                  "mom_in": [rng.randint(-3, 3) for _ in range(4)], "mom_out": [rng.randint(-3, 3) for _ in range(4)], "permute_slots": rng.random() < 0.5})
        p.pop("T")
        p.pop("gammas")
        p["calls"] = [self.gen_call(rng, p) for _ in range(rng.randint(1, 2))]
        return p

    def gen_call(self, rng, p):
        p2 = dict(p, gammas=[0])
        c = Hadrons.gen_call(self, rng, p2)
        for k in ("k", "by_gammas"):
            c.pop(k)
        c["api"] = p["family"]
        if p["family"] == "fourquark":
            c["vertices"] = rng.choice([None, ["VA", "AV"], ["VV"], ["SS", "PP", "TT"], ["TTtilde", "AA"], ["SP", "PS", "TTtilde"], ["TT"]])
        return c

    def nvals(self, p):
        return len(p["cfgs"]) * int(np.prod(p["dims"])) * 2

    def write_all(self, p, d, cfgs=None):
        models = {}
        os.makedirs(d, exist_ok=True)
        for c in (p["cfgs"] if cfgs is None else cfgs):
            models[c] = formats.write_hadrons_npr(p, c, os.path.join(d, "%s.%d.h5" % (p["stem"], c)))
        if p.get("distractors"):
            with open(os.path.join(d, "%s_other.%d.h5" % (p["stem"], p["cfgs"][0])), "wb") as f:
                f.write(b"not hdf5")
            with open(os.path.join(d, "notes.txt"), "wb") as f:
                f.write(b"x")
        return models

    def _keys(self, p, call):
        """result key -> [(model key, sign)]"""
        if p["family"] == "extleg":
            return {"leg": [("leg", 1)]}
        if p["family"] == "bilinear":
            return {g: [(g, 1)] for g in formats.BILINEAR_GAMMAS}
        tab = formats.fourquark_table()
        return {v: [(a + "," + b, sg) for a, b, sg in tab[v]] for v in (call.get("vertices") or ["VA", "AV"])}

    def expect(self, p, models, nrecs, call, present=None):
        cf = [c for c in p["cfgs"] if present is None or c in present]
        idl = self._idl(call)
        if idl is not None:
            if sorted(set(idl) - set(cf)):
                return None
            cf = [c for c in cf if c in set(idl)]
        if len(cf) < 5:
            return None
        if len(set(np.diff(cf))) != 1 and idl is None:
            return None
        out = {}
        n = int(np.prod(p["dims"]))
        for key, parts in self._keys(p, call).items():
            for e in range(n):
                out["%s/%d.re" % (key, e)] = ospec_from([p["ens"]], [cf], [[sum(sg * models[c][mk][e][0] for mk, sg in parts) for c in cf]])
                out["%s/%d.im" % (key, e)] = ospec_from([p["ens"]], [cf], [[sum(sg * models[c][mk][e][1] for mk, sg in parts) for c in cf]])
        return out

    def invoke(self, p, d, call):
        import pyerrors as pe
        idl = None
        if "idl" in call:
            idl = range(call["idl"][1], call["idl"][2], call["idl"][3]) if call["idl"][0] == "range" else list(call["idl"])
        h = pe.input.hadrons
        if p["family"] == "extleg":
            res = {"leg": h.read_ExternalLeg_hd5(d, p["stem"], p["ens"], idl=idl)}
        elif p["family"] == "bilinear":
            res = h.read_Bilinear_hd5(d, p["stem"], p["ens"], idl=idl)
        elif call.get("vertices"):
            res = h.read_Fourquark_hd5(d, p["stem"], p["ens"], idl=idl, vertices=list(call["vertices"]))
        else:
            res = h.read_Fourquark_hd5(d, p["stem"], p["ens"], idl=idl)
        out = {}
        for key, m in res.items():
            if tuple(m.shape) != tuple(p["dims"]):
                out["shape_mismatch_%s_%r" % (key, tuple(m.shape))] = None
                continue
            if not np.array_equal(np.asarray(m.mom_in, dtype=float), np.asarray(p["mom_in"], dtype=float)):
                out["mom_in_mismatch_%s_%r" % (key, m.mom_in)] = None
            if p["family"] != "extleg" and not np.array_equal(np.asarray(m.mom_out, dtype=float), np.asarray(p["mom_out"], dtype=float)):
                out["mom_out_mismatch_%s_%r" % (key, m.mom_out)] = None
            for e, cobs in enumerate(np.asarray(m).ravel()):
                out["%s/%d.re" % (key, e)] = cobs.real
                out["%s/%d.im" % (key, e)] = cobs.imag
        return out

    def component(self, p, call):
        return {"extleg": "read_ExternalLeg_hd5", "bilinear": "read_Bilinear_hd5", "fourquark": "read_Fourquark_hd5"}[p["family"]]


class HadronsDistillation(Hadrons):
    """Hadrons DistillationContraction output: one directory data.<cfg> per configuration holding one hdf5 file per
    operator combination; the reader averages every diagram over the source times after rolling them to zero."""
    name = "hadrons_dist"
    DIAGRAMS = ["direct", "box", "cross", "triangle"]

    def gen(self, rng, small=False):
        p = Hadrons.gen(self, rng, small)
        nst = rng.choice([1, 1, 2])
        ops = ["Identity", "Gamma5", "GammaX"]
        stems = []
        for i in range(nst):
            stems.append({"stem": rng.choice(["c2pt", "dist.pi", "kk"]) + str(i),
                          "inputs": [[rng.choice(ops), str(rng.randint(0, 9)), "p%d" % rng.randint(0, 2), "n%d" % (10 * i + j)] for j in range(rng.randint(1, 3))]})
        p.update({"kind": "hadrons_dist", "Nt": rng.randint(2, 6), "stems": stems, "diagrams_in_file": rng.sample(self.DIAGRAMS, rng.randint(1, 4))})
        for k in ("T", "gammas", "stem"):
            p.pop(k)
        p["calls"] = [self.gen_call(rng, p) for _ in range(rng.randint(1, 2))]
        return p

    def gen_call(self, rng, p):
        c = Hadrons.gen_call(self, rng, dict(p, gammas=[0]))
        for k in ("k", "by_gammas"):
            c.pop(k)
        c["api"] = "distillation"
        c["diagrams"] = rng.choice([None, None, sorted(rng.sample(p["diagrams_in_file"], rng.randint(1, len(p["diagrams_in_file"]))))])
        if c["diagrams"] is None and "direct" not in p["diagrams_in_file"]:
            c["diagrams"] = [p["diagrams_in_file"][0]]
        return c

    def nvals(self, p):
        return len(p["cfgs"]) * p["Nt"]

    def write_all(self, p, d, cfgs=None):
        models = {}
        os.makedirs(d, exist_ok=True)
        for c in (p["cfgs"] if cfgs is None else cfgs):
            models[c] = formats.write_distillation(p, c, d)
        if p.get("distractors"):
            with open(os.path.join(d, "notes.txt"), "wb") as f:
                f.write(b"x")
            os.makedirs(os.path.join(d, "database"), exist_ok=True)
        return models

    def expect(self, p, models, nrecs, call, present=None):
        cf = [c for c in p["cfgs"] if present is None or c in present]
        idl = self._idl(call)
        if idl is not None:
            if sorted(set(idl) - set(cf)):
                return None
            cf = [c for c in cf if c in set(idl)]
        if len(cf) < 5:
            return None
        if len(set(np.diff(cf))) != 1 and idl is None:
            return None
        Nt = p["Nt"]
        out = {}
        for ident in sorted(models[cf[0]]):
            idstr = str(ident)
            for dia in (call.get("diagrams") or ["direct"]):
                part = 1 if (dia == "triangle" and "Identity" not in idstr) else 0
                for t in range(Nt):
                    vals = []
                    for c in cf:
                        rows = models[c][ident][dia]
                        # source time x0 rolled to zero: entry (t + x0) mod Nt of row x0, averaged over x0
                        vals.append(sum(rows[x0][(t + x0) % Nt][part] for x0 in range(Nt)) / Nt)
                    out["%s/%s/t%d" % (idstr, dia, t)] = ospec_from([p["ens"]], [cf], [vals])
        return out

    def invoke(self, p, d, call):
        import pyerrors as pe
        idl = None
        if "idl" in call:
            idl = range(call["idl"][1], call["idl"][2], call["idl"][3]) if call["idl"][0] == "range" else list(call["idl"])
        if call.get("diagrams"):
            res = pe.input.hadrons.read_DistillationContraction_hd5(d, p["ens"], diagrams=list(call["diagrams"]), idl=idl)
        else:
            res = pe.input.hadrons.read_DistillationContraction_hd5(d, p["ens"], idl=idl)
        out = {}
        for ident, per in res.items():
            for dia, corr in per.items():
                if corr.T != p["Nt"]:
                    out["T_mismatch_%s_%s_%d" % (ident, dia, corr.T)] = None
                    continue
                if corr.tag != ident:
                    out["tag_mismatch_%s_%r" % (ident, corr.tag)] = None
                for t in range(corr.T):
                    out["%s/%s/t%d" % (ident, dia, t)] = corr.content[t][0]
        return out

    def file_for(self, p, d, c, k=0):
        return os.path.join(d, "data.%d" % c, "%s.%d.h5" % (p["stems"][k % len(p["stems"])]["stem"], c))

    def component(self, p, call):
        return "read_DistillationContraction_hd5"


for _k in (Sfcf(), Hadrons(), HadronsNpr(), HadronsDistillation()):
    KINDS[_k.name] = _k
