"""Stub Monte-Carlo programs: format-conformant writers for the measurement files pyerrors reads.

Every writer returns a FileImage (header bytes + list of record bytes + per-record field map) and the
*model*: the stored numbers as plain Python floats, per record.  Layouts are documented in DESIGN.md,
Appendix A; they are validated against the repository's stored sample files by selftest/stub_validation.py.
Native byte order, C int = 4 bytes, double = 8 bytes.
"""
import random
import os
import struct

from .. import kernel


class FileImage:
    def __init__(self, name, header, records, fields=None, kind="bin"):
        self.name = name              # path relative to the data directory
        self.header = header
        self.records = records        # list of bytes
        self.fields = fields or []    # per record: list of (offset, length, tag)
        self.kind = kind

    def total(self, nrec=None):
        recs = self.records if nrec is None else self.records[:nrec]
        return self.header + b"".join(recs)

    def boundaries(self):
        b = [len(self.header)]
        for r in self.records:
            b.append(b[-1] + len(r))
        return b

    def complete_before(self, cut):
        """number of complete records within the first `cut` bytes; -1 if the header is incomplete."""
        if cut < len(self.header):
            return -1
        n = 0
        pos = len(self.header)
        for r in self.records:
            if pos + len(r) <= cut:
                n += 1
                pos += len(r)
            else:
                break
        return n

    def classify(self, cut):
        """structural class of a cut offset (for coverage signatures)."""
        if cut < len(self.header):
            return "header"
        b = self.boundaries()
        if cut in b:
            return "record_boundary"
        for i in range(len(self.records)):
            if b[i] < cut < b[i + 1]:
                rel = cut - b[i]
                for off, ln, tag in self.fields[i] if i < len(self.fields) else []:
                    if off < rel < off + ln:
                        return "inside_" + tag
                    if rel == off:
                        return "field_boundary"
                return "field_boundary"
        return "eof"


def _vals(rnd, n, lo=-1.0, hi=1.0):
    return [rnd.uniform(lo, hi) for _ in range(n)]


# ---------------------------------------------------------------- openQCD rwms

def write_rwms(p, rep):
    """p: params dict; rep: index into p['reps'].  Returns (FileImage, model records).
    model record = {'cfg': stored number, 'lnr': [i][j][src]}"""
    rp = p["reps"][rep]
    rnd = random.Random(kernel.H("data", p["data_seed"], rep))
    ver = p["version"]
    nrw, nfct, nsrc = p["nrw"], p["nfct"], p["nsrc"]
    if ver == "1.4":
        header = struct.pack("i", nrw) + struct.pack("%di" % nrw, *nsrc)
    elif ver == "1.6":
        header = struct.pack("i", nrw) + struct.pack("%di" % nrw, *nfct) + struct.pack("%di" % nrw, *nsrc)
    else:
        header = struct.pack("i", 2 * nrw) + struct.pack("%di" % nrw, *nfct) + struct.pack("%di" % nrw, *nsrc) + struct.pack("i", 0)
    records, fields, model = [], [], []
    for k in range(rp["nrec"]):
        cfg = rp["first"] + k * rp["spacing"]
        b = struct.pack("i", cfg)
        fl = [(0, 4, "cfgno")]
        lnr_all = []
        for i in range(nrw):
            lnr_i = []
            if ver in ("1.4", "1.6"):
                for j in range(nfct[i] if ver == "1.6" else 1):
                    sqn = _vals(rnd, nsrc[i], 0.0, 5.0)
                    lnr = _vals(rnd, nsrc[i], -0.5, 0.5)
                    fl.append((len(b), 8 * nsrc[i], "unused"))
                    b += struct.pack("%dd" % nsrc[i], *sqn)
                    fl.append((len(b), 8 * nsrc[i], "used"))
                    b += struct.pack("%dd" % nsrc[i], *lnr)
                    lnr_i.append(lnr)
            else:
                # two arrays: d=2, n=(nfct, 2*nsrc), size=8; second one is used, every other entry of a row
                for which in range(2):
                    rows = []
                    for j in range(nfct[i]):
                        row = []
                        srcv = _vals(rnd, nsrc[i], -0.5, 0.5)
                        for s in range(nsrc[i]):
                            row.append(srcv[s])
                            row.append(rnd.uniform(0.0, 1.0))  # the interleaved entry the reader skips
                        rows.append(row)
                        if which == 1:
                            lnr_i.append(srcv)
                    hdr = struct.pack("i", 2) + struct.pack("2i", nfct[i], 2 * nsrc[i]) + struct.pack("i", 8)
                    fl.append((len(b), len(hdr), "arrayhdr"))
                    b += hdr
                    flat = [x for row in rows for x in row]
                    fl.append((len(b), 8 * len(flat), "used" if which == 1 else "unused"))
                    b += struct.pack("%dd" % len(flat), *flat)
            lnr_all.append(lnr_i)
        records.append(b)
        fields.append(fl)
        model.append({"cfg": cfg, "lnr": lnr_all})
    return FileImage(rp["file"], header, records, fields), model


# ---------------------------------------------------------------- openQCD .ms.dat

def write_ms(p, rep):
    """model record = {'traj', 'W','Y','Q': [n][x0]}"""
    rp = p["reps"][rep]
    rnd = random.Random(kernel.H("data", p["data_seed"], rep))
    dn, nn, tmax, eps = p["dn"], p["nn"], p["tmax"], p["eps"]
    header = struct.pack("iii", dn, nn, tmax) + struct.pack("d", eps)
    records, fields, model = [], [], []
    n0 = p.get("n0")
    L = p["L"]
    for k in range(rp["nrec"]):
        traj = rp["first"] + k * rp["spacing"]
        W, Y, Q = [], [], []
        for n in range(nn + 1):
            if n0:
                tn = n * dn * eps
                base = (L ** 3) * 0.3 * (n / n0) / (tn * tn) if n > 0 else 1.0
                Y.append([base * (1 + 0.02 * rnd.uniform(-1, 1)) for _ in range(tmax)])
                W.append([0.9 * base * (1 + 0.02 * rnd.uniform(-1, 1)) for _ in range(tmax)])
            else:
                Y.append(_vals(rnd, tmax, 0.5, 2.0))
                W.append(_vals(rnd, tmax, 0.5, 2.0))
            Q.append(_vals(rnd, tmax, -1.5, 1.5))
        b = struct.pack("i", traj)
        fl = [(0, 4, "cfgno")]
        for tag, arr in (("W", W), ("Y", Y), ("Q", Q)):
            flat = [x for row in arr for x in row]
            fl.append((len(b), 8 * len(flat), "block" + tag))
            b += struct.pack("%dd" % len(flat), *flat)
        records.append(b)
        fields.append(fl)
        model.append({"traj": traj, "W": W, "Y": Y, "Q": Q})
    return FileImage(rp["file"], header, records, fields), model


# ---------------------------------------------------------------- sfqcd .gfms.dat

def write_gfms(p, rep):
    """model record = {'traj', 'obs': [j][i][x0]}"""
    rp = p["reps"][rep]
    rnd = random.Random(kernel.H("data", p["data_seed"], rep))
    ncs, tmax, L = p["ncs"], p["tmax"], p["L"]
    header = struct.pack("<iii", 2, ncs, tmax) + struct.pack("<iii", L, L, L) + struct.pack("<dd", p["tol"], p["cmax"])
    records, fields, model = [], [], []
    for k in range(rp["nrec"]):
        traj = rp["first"] + k * rp["spacing"]
        b = struct.pack("i", traj)
        fl = [(0, 4, "cfgno")]
        obs = []
        for j in range(ncs + 1):
            oj = []
            for i in range(16):
                v = _vals(rnd, tmax, -1.5, 1.5)
                fl.append((len(b), 8 * tmax, "obs"))
                b += struct.pack("%dd" % tmax, *v)
                oj.append(v)
            obs.append(oj)
        records.append(b)
        fields.append(fl)
        model.append({"traj": traj, "obs": obs})
    return FileImage(rp["file"], header, records, fields), model


# ---------------------------------------------------------------- ms5_xsf

MS5_BI = ["gS", "gP", "gA", "gV", "gVt", "lA", "lV", "lVt", "lT", "lTt"]
MS5_BB = ["g1", "l1"]


def write_ms5(p, rep):
    """model record = {'cfg', 'bi': {name: [(re, im)]*tmax}, 'bb': {name: (re, im)}}"""
    rp = p["reps"][rep]
    rnd = random.Random(kernel.H("data", p["data_seed"], rep))
    tmax = p["tmax"]
    header = struct.pack("dddd", 0.13, 1.5, 0.5, 1.0) + struct.pack("ii", tmax, 1)
    records, fields, model = [], [], []
    for k in range(rp["nrec"]):
        cfg = rp["cfgs"][k]
        b = struct.pack("=i", cfg)
        fl = [(0, 4, "cfgno")]
        bi, bb = {}, {}
        for name in MS5_BI:
            v = [(rnd.uniform(-1, 1), rnd.uniform(-1, 1)) for _ in range(tmax)]
            bi[name] = v
            fl.append((len(b), 16 * tmax, "bi"))
            b += struct.pack("=%dd" % (2 * tmax), *[x for pair in v for x in pair])
        for name in MS5_BB:
            v = (rnd.uniform(-1, 1), rnd.uniform(-1, 1))
            bb[name] = v
            fl.append((len(b), 16, "bb"))
            b += struct.pack("=2d", *v)
        records.append(b)
        fields.append(fl)
        model.append({"cfg": cfg, "bi": bi, "bb": bb})
    return FileImage(rp["file"], header, records, fields), model


# ---------------------------------------------------------------- sfcf (text)

SFCF_RUN = """[run]

version     2.1
date        2022-01-19 11:04:00 +0100
host        r04n07.palma.wwu
dir         /scratch/tmp/j_kuhl19
user        j_kuhl19
gauge_name  %s
gauge_md5   1ea28326e4090996111a320b8372811d
param_name  sfcf_unity_test.in
param_md5   d881e90d41188a33b8b0f1bd0bc53ea5
param_hash  686af5e712ee2902180f5428af94c6e7
data_name   ./output_10519905/data_of_1

"""


def _num(x):
    return "%+.16e" % x


def sfcf_block(spec, vals):
    """One [correlator] block.  spec: {'name','quarks','off','wf','wf2' (b2b only),'type'}.
    vals: for bi/bib list of (re, im) per t (1-based t printed); for bb one (re, im)."""
    s = "[correlator]\n\nname      %s\nquarks    %s\noffset    %d\nwf        %d\n" % (spec["name"], spec["quarks"], spec["off"], spec["wf"])
    if spec["type"] in ("bb", "bib"):
        s += "wf_2      %d\n" % spec["wf2"]
    if spec["type"] == "bb":
        s += "corr\n" + _num(vals[0][0]) + " " + _num(vals[0][1]) + "\n"
    else:
        s += "corr_t\n"
        for t, (re_, im_) in enumerate(vals):
            s += "%3d %s %s\n" % (t + 1, _num(re_), _num(im_))
    s += "\n"
    return s


def sfcf_values(p, rep, cfg):
    """model numbers of one configuration: {blockindex: [(re, im)]}, deterministic in (data_seed, rep, cfg)."""
    rnd = random.Random(kernel.H("data", p["data_seed"], rep, cfg))
    out = []
    for spec in p["blocks"]:
        T = 1 if spec["type"] == "bb" else p["T"]
        out.append([(rnd.uniform(-100, 100), rnd.uniform(-1e-3, 1e-3)) for _ in range(T)])
    return out


def sfcf_files(p, rep):
    """Files of one replica for layout o / c / a.
    Returns list of (FileImage, owner) and model {cfg: values-per-block}.
    For o: one file per (cfg, name); for c: one file per cfg; for a: one file per name, one record per cfg."""
    rp = p["reps"][rep]
    layout = p["layout"]
    model = {}
    images = []
    names = []
    for spec in p["blocks"]:
        if spec["name"] not in names:
            names.append(spec["name"])
    for cfg in rp["cfgs"]:
        model[cfg] = sfcf_values(p, rep, cfg)
    if layout == "o":
        for cfg in rp["cfgs"]:
            for nm in names:
                recs = []
                for bi, spec in enumerate(p["blocks"]):
                    if spec["name"] == nm:
                        recs.append(sfcf_block(spec, model[cfg][bi]).encode())
                images.append(FileImage("%s/cfg%d/%s" % (rp["dir"], cfg, nm), (SFCF_RUN % "/unity").encode(), recs, kind="text"))
    elif layout == "c":
        for cfg in rp["cfgs"]:
            recs = [sfcf_block(spec, model[cfg][bi]).encode() for bi, spec in enumerate(p["blocks"])]
            images.append(FileImage("%s/%s_%s%d" % (rp["dir"], rp["dir"], p.get("cfgsep", "n"), cfg), (SFCF_RUN % "/unity").encode(), recs, kind="text"))
    else:
        for nm in names:
            recs = []
            for cfg in rp["cfgs"]:
                s = SFCF_RUN % ("/%s_%s%d" % (rp["dir"], p.get("cfgsep", "n"), cfg))
                for bi, spec in enumerate(p["blocks"]):
                    if spec["name"] == nm:
                        s += sfcf_block(spec, model[cfg][bi])
                recs.append(s.encode())
            images.append(FileImage("%s.%s" % (rp["dir"], nm), b"", recs, kind="text"))
    return images, model


# ---------------------------------------------------------------- Hadrons meson hdf5

def write_hadrons(p, cfg, path):
    """Writes <stem>.<cfg>.h5 with group meson/meson_<k>; returns model {k: [(re, im)]*T}."""
    import h5py
    import numpy as np
    rnd = random.Random(kernel.H("data", p["data_seed"], cfg))
    model = {}
    with h5py.File(path, "w") as f:
        g = f.create_group("meson")
        for k, (snk, src) in enumerate(p["gammas"]):
            m = g.create_group("meson_%d" % k)
            m.attrs.create("gamma_snk", np.array([snk.encode()]))
            m.attrs.create("gamma_src", np.array([src.encode()]))
            v = [(rnd.uniform(-1, 1), rnd.uniform(-1, 1)) for _ in range(p["T"])]
            arr = np.array(v, dtype=[("re", "<f8"), ("im", "<f8")])
            m.create_dataset("corr", data=arr)
            model[k] = v
    return model


# ---------------------------------------------------------------- Hadrons NPR files (ExternalLeg, Bilinear, FourQuarkFullyConnected)

BILINEAR_GAMMAS = ["Identity", "Gamma5", "GammaX", "GammaY", "GammaZ", "GammaT", "GammaXGamma5", "GammaYGamma5", "GammaZGamma5", "GammaTGamma5",
                   "SigmaXY", "SigmaXZ", "SigmaXT", "SigmaYZ", "SigmaYT", "SigmaZT"]


def fourquark_table():
    """vertex -> [(gammaA, gammaB, sign)] as documented by the Lorentz structure of the reader's vertices (written out by hand)"""
    mu = ["X", "Y", "Z", "T"]
    t = {"SS": [("Identity", "Identity", 1)], "PP": [("Gamma5", "Gamma5", 1)], "SP": [("Identity", "Gamma5", 1)], "PS": [("Gamma5", "Identity", 1)],
         "VV": [("Gamma" + m, "Gamma" + m, 1) for m in mu], "AA": [("Gamma%sGamma5" % m, "Gamma%sGamma5" % m, 1) for m in mu],
         "VA": [("Gamma" + m, "Gamma%sGamma5" % m, 1) for m in mu], "AV": [("Gamma%sGamma5" % m, "Gamma" + m, 1) for m in mu],
         "TT": [("Sigma" + a, "Sigma" + a, 1) for a in ("XY", "XZ", "XT", "YZ", "YT", "ZT")],
         "TTtilde": [("SigmaXY", "SigmaZT", -1), ("SigmaXZ", "SigmaYT", 1), ("SigmaXT", "SigmaYZ", -1), ("SigmaYZ", "SigmaXT", -1), ("SigmaYT", "SigmaXZ", 1), ("SigmaZT", "SigmaXY", -1)]}
    return t


def _npr_block(rnd, dims):
    import numpy as np
    n = 1
    for x in dims:
        n *= x
    re = [rnd.uniform(-1, 1) for _ in range(n)]
    im = [rnd.uniform(-1, 1) for _ in range(n)]
    arr = np.zeros((1, 1) + tuple(dims), dtype=[("re", "<f8"), ("im", "<f8")])
    arr["re"][0, 0] = np.array(re).reshape(dims)
    arr["im"][0, 0] = np.array(im).reshape(dims)
    return arr, list(zip(re, im))


def _mom_attr(v):
    import numpy as np
    return np.array([(" ".join(str(x) for x in v) + " ").encode()])


def write_hadrons_npr(p, cfg, path):
    """Writes <stem>.<cfg>.h5 of the family p['family']; returns model {key: [(re, im)] flat in C order}.  The slot
    order of the Bilinear_<i> / FourQuarkFullyConnected_<i> groups is a seeded permutation per file (the groups carry their names)."""
    import h5py
    import numpy as np
    rnd = random.Random(kernel.H("data", p["data_seed"], cfg))
    dims = p["dims"]
    model = {}
    with h5py.File(path, "w") as f:
        if p["family"] == "extleg":
            g = f.create_group("ExternalLeg")
            arr, flat = _npr_block(rnd, dims)
            g.create_dataset("corr", data=arr)
            info = g.create_group("info")
            info.attrs.create("pIn", _mom_attr(p["mom_in"]))
            model["leg"] = flat
        elif p["family"] == "bilinear":
            g = f.create_group("Bilinear")
            slots = list(range(16))
            if p.get("permute_slots"):
                rnd.shuffle(slots)
            for i, name in zip(slots, BILINEAR_GAMMAS):
                b = g.create_group("Bilinear_%d" % i)
                arr, flat = _npr_block(rnd, dims)
                b.create_dataset("corr", data=arr)
                info = b.create_group("info")
                info.attrs.create("gamma", np.array([name.encode()]))
                info.attrs.create("pIn", _mom_attr(p["mom_in"]))
                info.attrs.create("pOut", _mom_attr(p["mom_out"]))
                model[name] = flat
        else:
            g = f.create_group("FourQuarkFullyConnected")
            pairs = []
            for v, lst in sorted(fourquark_table().items()):
                for a, b_, sg in lst:
                    if (a, b_) not in pairs:
                        pairs.append((a, b_))
            assert len(pairs) == 32
            slots = list(range(32))
            if p.get("permute_slots"):
                rnd.shuffle(slots)
            for i, (a, b_) in zip(slots, pairs):
                q = g.create_group("FourQuarkFullyConnected_%d" % i)
                arr, flat = _npr_block(rnd, dims)
                q.create_dataset("corr", data=arr)
                info = q.create_group("info")
                info.attrs.create("gammaA", np.array([a.encode()]))
                info.attrs.create("gammaB", np.array([b_.encode()]))
                info.attrs.create("pIn", _mom_attr(p["mom_in"]))
                info.attrs.create("pOut", _mom_attr(p["mom_out"]))
                model[a + "," + b_] = flat
    return model


def write_distillation(p, cfg, root):
    """Writes <root>/data.<cfg>/<stem>.<cfg>.h5 for every stem of p['stems'] (Hadrons DistillationContraction output);
    returns model {identifier string: {diagram: [[(re, im)] * Nt per source time x0]}}."""
    import h5py
    import numpy as np
    d = os.path.join(root, "data.%d" % cfg)
    os.makedirs(d, exist_ok=True)
    model = {}
    Nt = p["Nt"]
    for si, st in enumerate(p["stems"]):
        rnd = random.Random(kernel.H("data", p["data_seed"], cfg, si))
        with h5py.File(os.path.join(d, "%s.%d.h5" % (st["stem"], cfg)), "w") as f:
            g = f.create_group("DistillationContraction")
            md = g.create_group("Metadata")
            md.attrs.create("TimeSources", np.array([b"0..."]))
            md.attrs.create("Nt", np.array([Nt]))
            inp = md.create_group("DmfInputFiles")
            for i, parts in enumerate(st["inputs"]):
                inp.attrs.create("DmfInputFiles_%d" % i, np.array([("/some/dir/%s_g%s_%s_%s.h5" % tuple(parts)).encode()]))
            inp.attrs.create("DmfInputFiles_size", np.array([len(st["inputs"])]))
            cg = g.create_group("Correlators")
            per = {}
            for dia in p["diagrams_in_file"]:
                dg = cg.create_group(dia)
                rows = []
                for x0 in range(Nt):
                    v = [(rnd.uniform(-1, 1), rnd.uniform(-1, 1)) for _ in range(Nt)]
                    dg.create_dataset(str(x0), data=np.array(v, dtype=[("re", "<f8"), ("im", "<f8")]))
                    rows.append(v)
                per[dia] = rows
        ident = str(tuple((a, b, c_, e) for a, b, c_, e in (tuple(x) for x in st["inputs"])))
        model[ident] = per
    return model
