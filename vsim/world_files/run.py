"""Shared execution helpers for world A (C17, C18): materialise file sets, call readers through the seams,
compare with the reference model."""
import os

import numpy as np

from .. import seams, wellformed
from . import drivers


def reader_modules():
    import pyerrors.input.openQCD as m1
    import pyerrors.input.sfcf as m2
    import pyerrors.input.misc as m3
    import pyerrors.input.utils as m4
    import pyerrors.input.hadrons as m5
    return [m1, m2, m3, m4, m5]


def call_reader(kind, p, d, call, ctx, extra_patches=()):
    """-> ("ok", {label: Obs}) | ("raise", ExceptionClassName, msg)"""
    import copy
    proxy = seams.OsProxy(call.get("perm_seed"), ctx)
    pairs = [(m, "os", proxy) for m in reader_modules()] + list(extra_patches)
    pairs.append((reader_modules()[4], "Path", seams.make_path_class(proxy)))      # hadrons walks directories with pathlib
    c2 = copy.deepcopy(call)        # readers sort caller lists in place; the plan must stay unchanged
    with seams.patched(pairs):
        try:
            res = kind.invoke(p, d, c2)
        except AssertionError:
            raise
        except Exception as e:
            return ("raise", type(e).__name__, str(e)[:200])
    return ("ok", res)


def compare(ctx, prop, comp, disc, exp, got, derived=None):
    """exp: {label: ospec}; got: {label: Obs}.  Reports the first difference as a violation. Returns True if equal."""
    for label in sorted(exp):
        if label not in got:
            ctx.violation(prop + ".values", comp, disc, "result lacks %s" % label)
            return False
        o = got[label]
        probs = wellformed.any_problems(o)
        if probs:
            ctx.violation(prop + ".wellformed", comp, probs[0][0], "%s: %s" % (label, probs[0][1]))
            return False
        d = drivers.spec_diff(exp[label], drivers.obs_to_spec(o))
        ctx.compared += sum(len(v) for v in exp[label]["vals"].values())
        if d is not None:
            ctx.violation(prop + "." + d[0], comp, disc, "%s: %s" % (label, d[1]))
            return False
    extra = [k for k in got if k not in exp and not k.startswith("__")]
    if extra:
        ctx.violation(prop + ".values", comp, disc, "unexpected extra results %r" % extra)
        return False
    return True


def build_expected_obs(exp):
    """pe.Obs built directly from the model (for differential oracles through downstream code)."""
    import pyerrors as pe
    out = {}
    for label, s in exp.items():
        names = sorted(s["names"])
        out[label] = pe.Obs([np.asarray(s["vals"][n], dtype=float) for n in names], names, idl=[s["idl"][n] for n in names])
    return out


def obs_close(a, b, rtol=1e-9):
    sa, sb = drivers.obs_to_spec(a), drivers.obs_to_spec(b)
    if sa["names"] != sb["names"] or sa["idl"] != sb["idl"]:
        return "names/idl differ: %r vs %r" % (sa["names"], sb["names"])
    if not abs(sa["value"] - sb["value"]) <= rtol * max(abs(sa["value"]), 1e-300):
        return "value %.17g vs %.17g" % (sa["value"], sb["value"])
    for n in sa["names"]:
        x, y = np.asarray(sa["vals"][n]), np.asarray(sb["vals"][n])
        sc = max(np.max(np.abs(x - np.mean(x))), 1e-300)
        if not np.all(np.abs(x - y) <= rtol * max(sc, abs(sa["value"]))):
            return "samples of %s differ" % n
    return None


def write_complete(images, root, extra=None):
    for img in images:
        p = os.path.join(root, img.name)
        os.makedirs(os.path.dirname(p), exist_ok=True)
        with open(p, "wb") as f:
            f.write(img.total())
    for name, data in (extra or {}).items():
        p = os.path.join(root, name)
        os.makedirs(os.path.dirname(p), exist_ok=True)
        with open(p, "wb") as f:
            f.write(data)
