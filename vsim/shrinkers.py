"""Argument shrinking shared by the property-specific shrink modules: every function yields simpler candidate plans
(the minimiser keeps a candidate only if it fails with the same violation key)."""
import copy


def drop_pool_elements(plan, key, keep=1):
    lst = plan.get(key)
    if isinstance(lst, list) and len(lst) > keep:
        for i in range(len(lst)):
            c = copy.deepcopy(plan)
            del c[key][i]
            yield c


def simplify_obs_specs(plan, key):
    """specs as produced by world_session.objs.gen_obs_spec"""
    for si, s in enumerate(plan.get(key, [])):
        if not isinstance(s, dict) or "parts" not in s:
            continue
        if "cov" in s:
            c = copy.deepcopy(plan)
            del c[key][si]["cov"]
            yield c
        if len(s["parts"]) > 1:
            for pi in range(len(s["parts"])):
                c = copy.deepcopy(plan)
                del c[key][si]["parts"][pi]
                yield c
        for pi, part in enumerate(s["parts"]):
            if len(part["chains"]) > 1:
                for ci in range(len(part["chains"])):
                    c = copy.deepcopy(plan)
                    del c[key][si]["parts"][pi]["chains"][ci]
                    yield c
            for ci, ch in enumerate(part["chains"]):
                if ch["n"] > 8 and isinstance(ch["idl"], list) and ch["idl"] and ch["idl"][0] == "range":
                    c = copy.deepcopy(plan)
                    cc = c[key][si]["parts"][pi]["chains"][ci]
                    cc["n"] = 8
                    cc["idl"] = ["range", ch["idl"][1], ch["idl"][1] + 8 * ch["idl"][3], ch["idl"][3]]
                    yield c
                elif ch["n"] > 8 and isinstance(ch["idl"], list):
                    c = copy.deepcopy(plan)
                    cc = c[key][si]["parts"][pi]["chains"][ci]
                    cc["n"] = 8
                    cc["idl"] = ch["idl"][:8]
                    yield c
                if ch["data"]["kind"] != "white":
                    c = copy.deepcopy(plan)
                    c[key][si]["parts"][pi]["chains"][ci]["data"]["kind"] = "white"
                    yield c


def simplify_ops(plan, drop_keys=(), set_values=()):
    for i, op in enumerate(plan.get("ops", [])):
        for k in drop_keys:
            if k in op:
                c = copy.deepcopy(plan)
                del c["ops"][i][k]
                yield c
        for k, v in set_values:
            if k in op and op[k] != v:
                c = copy.deepcopy(plan)
                c["ops"][i][k] = v
                yield c
