"""World C helpers: observable construction from plan data, plain-data snapshots, pristine rebuild,
interrupt injection."""
import math
import random
import linecache
import sys

import numpy as np

from .. import kernel

import os as _os
REPO_PKG = _os.path.join(_os.path.realpath(_os.environ.get("VSIM_REPO", "/repo")), "pyerrors") + "/"


# ------------------------------------------------------------------ layouts and data (plan data -> arrays)

def gen_idl(rng, n, allow_irregular=True):
    mode = rng.choice(["contig", "contig", "stride", "gapped", "irregular"] if allow_irregular else ["contig", "contig", "stride"])
    first = rng.choice([1, 1, 0, rng.randint(2, 500)])
    if mode == "contig":
        return ["range", first, first + n, 1]
    if mode == "stride":
        s = rng.choice([2, 3, 4, 10])
        return ["range", first, first + n * s, s]
    if mode == "gapped":
        s = rng.choice([1, 2, 5])
        full = list(range(first, first + 2 * n * s, s))
        keep = sorted(rng.sample(range(len(full)), n))
        out = [full[i] for i in keep]
    else:
        out = sorted(rng.sample(range(first, first + 3 * n + 3), n))
    d = set(b - a for a, b in zip(out, out[1:]))
    if len(d) == 1:
        return ["range", out[0], out[-1] + 1, d.pop()]
    return out


def idl_obj(spec):
    if isinstance(spec, list) and spec and spec[0] == "range":
        return range(spec[1], spec[2], spec[3])
    return list(spec)


def sibling_idl(rng, idl):
    """another irregular list with the same first and last configuration and the same length, holes elsewhere
    (exposes caches keyed by summary statistics of a layout)"""
    lst = list(idl_obj(idl))
    if len(lst) < 6:
        return idl
    lo, hi = lst[0], lst[-1]
    d = [b - a for a, b in zip(lst, lst[1:])]
    step = min(d)
    grid = list(range(lo, hi + 1, step))
    if len(grid) <= len(lst):
        # contiguous: open one hole by stretching the end
        grid = list(range(lo, hi + 2 * step + 1, step))
        hi = grid[-1]
    inner = [g for g in grid[1:-1]]
    if len(inner) < len(lst) - 2:
        return idl
    pick = sorted(rng.sample(inner, len(lst) - 2))
    out = [lo] + pick + [hi]
    dd = set(b - a for a, b in zip(out, out[1:]))
    if len(dd) == 1:
        return ["range", out[0], out[-1] + 1, dd.pop()]
    return out


def gen_chain(rng, ens, rname, nmin=5, nmax=64, allow_irregular=True):
    n = rng.randint(nmin, max(nmax, nmin + 4))
    return {"name": rname, "n": n, "idl": gen_idl(rng, n, allow_irregular),
            "data": {"kind": rng.choice(["white", "white", "ar1", "ar1", "const", "alt", "int"]), "seed": rng.getrandbits(32),
                     "tau": rng.choice([0.5, 1.5, 3.0, 10.0]), "mean": rng.choice([0.0, 1.0, -2.5, 1e3, 1e-3]), "amp": rng.choice([1.0, 1.0, 0.01, 50.0])}}


def _mkcov(name, dim):
    rr = random.Random(kernel.H("covdef", name))
    A = [[rr.uniform(-1, 1) for _ in range(dim)] for _ in range(dim)]
    cov = [[sum(A[i][k] * A[j][k] for k in range(dim)) + (0.1 if i == j else 0.0) for j in range(dim)] for i in range(dim)]
    return {"dim": dim, "means": [rr.uniform(-2, 2) for _ in range(dim)], "cov": cov}


# one covariance matrix per name (the library rightly rejects two different matrices under one name)
COVS = {"covA": _mkcov("covA", 2), "sys_b": _mkcov("sys_b", 1), "Zc": _mkcov("Zc", 3)}
ENS = ["A", "B2", "ens_c", "D|x"]   # 'D|x': a name whose text after '|' does not start with r


def gen_obs_spec(rng, nens=None, nmin=5, nmax=64, allow_irregular=True, allow_cov=True):
    """An observable = sum over 1..3 single-ensemble primaries (each 1..3 replicas) [+ covariance input]."""
    nens = nens or rng.choice([1, 1, 2, 3])
    ens = rng.sample(["A", "A2", "B2", "ens_c", "Dd"], nens)
    parts = []
    for e in ens:
        R = rng.choice([1, 1, 2, 3])
        if R == 1 and rng.random() < 0.5:
            names = [e]                      # ensemble without replica separator
        else:
            nums = rng.sample([0, 1, 2, 3, 10, 11, 100], R)
            style = rng.choice(["r", "rep", ""])
            names = ["%s|%s%d" % (e, style, k) for k in nums]
        parts.append({"coef": rng.choice([1.0, 1.0, 0.5, -2.0, 3.25]), "chains": [gen_chain(rng, e, nm, nmin, nmax, allow_irregular) for nm in names]})
    spec = {"parts": parts}
    if allow_irregular and rng.random() < 0.3:
        # sibling layouts: chains sharing first / last configuration and length with another chain of the object
        for part in parts:
            for k in range(1, len(part["chains"])):
                if rng.random() < 0.6:
                    a = part["chains"][0]
                    part["chains"][k]["idl"] = sibling_idl(rng, a["idl"])
                    part["chains"][k]["n"] = a["n"]
    if allow_cov and rng.random() < 0.25:
        name = rng.choice(["covA", "sys_b"])
        spec["cov"] = dict(COVS[name], name=name, pos=rng.randrange(COVS[name]["dim"]), coef=rng.choice([1.0, 0.3]))
    return spec


def chain_data(ch):
    d = ch["data"]
    rnd = random.Random(kernel.H("chain", d["seed"]))
    n = ch["n"]
    kind = d["kind"]
    if kind == "white":
        x = [rnd.gauss(0, 1) for _ in range(n)]
    elif kind == "ar1":
        a = math.exp(-1.0 / d["tau"])
        x = [rnd.gauss(0, 1)]
        for _ in range(n - 1):
            x.append(a * x[-1] + math.sqrt(1 - a * a) * rnd.gauss(0, 1))
    elif kind == "const":
        x = [0.0] * n
    elif kind == "alt":
        x = [(-1.0) ** i for i in range(n)]
    else:
        x = [float(rnd.randint(-2, 2)) for _ in range(n)]
    return np.array([d["mean"] + d["amp"] * v for v in x], dtype=float)


def build_obs(spec):
    import pyerrors as pe
    total = None
    for part in spec["parts"]:
        chains = part["chains"]
        o = pe.Obs([chain_data(c) for c in chains], [c["name"] for c in chains], idl=[idl_obj(c["idl"]) for c in chains])
        term = part["coef"] * o
        total = term if total is None else total + term
    if "cov" in spec:
        c = spec["cov"]
        co = pe.cov_Obs(c["means"], np.array(c["cov"]), c["name"])
        co = co if isinstance(co, pe.Obs) else co[c["pos"]]
        total = total + c["coef"] * co
    return total


# ------------------------------------------------------------------ plain data <-> Obs

def idl_plain(x):
    if isinstance(x, range):
        return ("range", x.start, x.start + len(x) * x.step, x.step)      # normalised stop
    return [int(i) for i in x]


def plain(o):
    cov = {n: (np.array(o.covobs[n].cov), np.array(o.covobs[n].grad)) for n in o.covobs}
    mc = [n for n in o.names if n not in cov]
    return {"names": list(o.names), "mc": mc, "idl": {n: idl_plain(o.idl[n]) for n in mc},
            "deltas": {n: np.array(o.deltas[n], dtype=float) for n in mc}, "r_values": {n: o.r_values[n] for n in mc},
            "value": o.value, "cov": cov,
            "reweighted": bool(o.reweighted), "tag": o.tag}


def rebuild(pl, only_ens=None):
    """A fresh Obs with exactly this data (never analysed).  only_ens: keep only the chains of that ensemble."""
    import pyerrors as pe
    from pyerrors.covobs import Covobs
    mc = [n for n in pl["mc"] if only_ens is None or n.split("|")[0] == only_ens]
    o = pe.Obs([pl["deltas"][n] for n in mc], mc, idl=[idl_obj(list(pl["idl"][n]) if isinstance(pl["idl"][n], tuple) else pl["idl"][n]) for n in mc],
               means=[pl["r_values"][n] for n in mc])
    o._value = pl["value"]
    if only_ens is None:
        for n, (cov, grad) in pl["cov"].items():
            o.names.append(n)
            o._covobs[n] = Covobs(0, cov, n, grad=grad)
        o.names = list(pl["names"])
    o.reweighted = pl["reweighted"]
    o.tag = pl["tag"]
    return o


def data_digest(o):
    pl = plain(o)
    return kernel.digest(pl["names"], pl["idl"], pl["deltas"], pl["r_values"], pl["value"],
                         {n: [c[0], c[1]] for n, c in pl["cov"].items()}, pl["reweighted"], repr(pl["tag"]), o.N, dict(o.shape))


def plain_close(a, b, rtol=1e-12):
    """structural equality plus numerical agreement to rtol (relative to the object's scale)"""
    if a["names"] != b["names"] or a["idl"] != b["idl"] or sorted(a["cov"]) != sorted(b["cov"]) or a["reweighted"] != b["reweighted"]:
        return False
    sc = abs(a["value"]) + max([float(np.max(np.abs(d))) if len(d) else 0.0 for d in a["deltas"].values()] + [0.0]) + 1e-300
    if not abs(a["value"] - b["value"]) <= rtol * sc:
        return False
    for n in a["mc"]:
        if a["deltas"][n].shape != b["deltas"][n].shape or not np.all(np.abs(a["deltas"][n] - b["deltas"][n]) <= rtol * sc):
            return False
        if not abs(a["r_values"][n] - b["r_values"][n]) <= rtol * (sc + abs(a["r_values"][n])):
            return False
    for n in a["cov"]:
        if not np.allclose(a["cov"][n][1], b["cov"][n][1], rtol=rtol, atol=rtol * float(np.max(np.abs(a["cov"][n][1])) + 1e-300)):
            return False
    return True


def plain_equal(a, b):
    """bitwise comparison of two plain snapshots; returns None or a description of the first difference."""
    if a["names"] != b["names"]:
        return "names %r vs %r" % (a["names"], b["names"])
    if a["idl"] != b["idl"]:
        return "idl differ"
    if not (a["value"] == b["value"] or (a["value"] != a["value"] and b["value"] != b["value"])):
        return "value %r vs %r" % (a["value"], b["value"])
    for n in a["mc"]:
        if not np.array_equal(a["deltas"][n], b["deltas"][n], equal_nan=True):
            i = int(np.where(a["deltas"][n] != b["deltas"][n])[0][0])
            return "deltas[%s][%d] %r vs %r" % (n, i, a["deltas"][n][i], b["deltas"][n][i])
        if a["r_values"][n] != b["r_values"][n] and not (a["r_values"][n] != a["r_values"][n]):
            return "r_values[%s] %r vs %r" % (n, a["r_values"][n], b["r_values"][n])
    if sorted(a["cov"]) != sorted(b["cov"]):
        return "cov names differ"
    for n in a["cov"]:
        if not np.array_equal(a["cov"][n][0], b["cov"][n][0], equal_nan=True) or not np.array_equal(a["cov"][n][1], b["cov"][n][1], equal_nan=True):
            return "covobs %s differs" % n
    if a["reweighted"] != b["reweighted"]:
        return "reweighted %r vs %r" % (a["reweighted"], b["reweighted"])
    return None


E_KEYS = ["e_dvalue", "e_ddvalue", "e_tauint", "e_dtauint", "e_windowsize", "e_rho", "e_drho", "e_n_tauint", "e_n_dtauint", "S", "tau_exp", "N_sigma"]


def analysis_of(o, e):
    """the per-ensemble analysis results of an analysed Obs (missing keys -> None)."""
    out = {}
    for k in E_KEYS:
        dct = getattr(o, k, None)
        v = None if dct is None else dct.get(e)
        if isinstance(v, np.ndarray):
            v = np.array(v)
        elif v is not None:
            v = float(v) if not isinstance(v, (int, np.integer)) else int(v)
        out[k] = v
    return out


def analysis_equal(a, b, rtol=0.0):
    for k in E_KEYS:
        x, y = a[k], b[k]
        if x is None or y is None:
            if x is not y:
                return "%s: %r vs %r" % (k, x, y)
            continue
        if isinstance(x, np.ndarray) or isinstance(y, np.ndarray):
            x, y = np.asarray(x), np.asarray(y)
            if x.shape != y.shape:
                return "%s: shapes %r vs %r" % (k, x.shape, y.shape)
            if rtol == 0.0:
                if not np.array_equal(x, y, equal_nan=True):
                    i = int(np.where(x != y)[0][0])
                    return "%s[%d]: %r vs %r" % (k, i, x[i], y[i])
            elif not np.allclose(x, y, rtol=rtol, atol=rtol * max(1e-300, float(np.max(np.abs(x))) if x.size else 0.0), equal_nan=True):
                return "%s: arrays differ beyond %g" % (k, rtol)
        else:
            if x != y and not (x != x and y != y):
                if rtol == 0.0 or not abs(x - y) <= rtol * max(abs(x), abs(y)):
                    return "%s: %r vs %r" % (k, x, y)
    return None


# ------------------------------------------------------------------ interruption (models Ctrl-C between two lines)

class SimInterrupt(BaseException):
    pass


def run_interruptible(fn, k):
    """Run fn(); raise SimInterrupt at the k-th line event inside pyerrors code (k=None: only count).
    Returns (status, value, nlines): status in 'done' | 'interrupted' | 'raised'."""
    state = {"n": 0}

    def local(frame, event, arg):
        if event == "line":
            # a `with` line is visited a second time when the block is left, just before __exit__ is called; CPython does
            # not run signal handlers at that point (a real Ctrl-C cannot skip __exit__), so it is no interrupt point
            if linecache.getline(frame.f_code.co_filename, frame.f_lineno).lstrip().startswith(("with ", "async with ")):
                return local
            state["n"] += 1
            if k is not None and state["n"] == k:
                raise SimInterrupt()
        return local

    def tracer(frame, event, arg):
        if event == "call" and frame.f_code.co_filename.startswith(REPO_PKG):
            return local
        return None

    old = sys.gettrace()
    sys.settrace(tracer)
    try:
        try:
            v = fn()
            st = "done"
        except SimInterrupt:
            v, st = None, "interrupted"
        except Exception as e:
            v, st = e, "raised"
    finally:
        sys.settrace(old)
    return st, v, state["n"]
