"""C04's representation invariant, shared by all worlds (every object a reader/import returns is checked)."""
import numbers

import numpy as np


def is_real_scalar(v):
    if isinstance(v, (bool, np.bool_)):
        return False
    if isinstance(v, complex) or isinstance(v, np.complexfloating):
        return False
    if isinstance(v, np.ndarray):
        return False
    return isinstance(v, (numbers.Real, np.floating, np.integer))


def obs_problems(o, strict_float=False):
    """Return a list of (clause, message) for an Obs that violates the structural invariant."""
    import pyerrors as pe
    out = []
    if not isinstance(o, pe.Obs):
        return [("type", "not an Obs: %s" % type(o).__name__)]
    v = o.value
    if not is_real_scalar(v):
        out.append(("value_real", "central value is %s %r" % (type(v).__name__, v)))
    elif strict_float and not isinstance(v, (float, np.floating)):
        out.append(("value_float", "central value is %s" % type(v).__name__))
    names = list(o.names)
    if not all(isinstance(n, str) for n in names):
        out.append(("names_str", "non-string name in %r" % (names,)))
        return out
    cov0 = set(o.covobs.keys())
    chain_names = [n for n in names if n not in cov0]
    if chain_names != sorted(chain_names):
        out.append(("names_sorted", "chain names not sorted: %r" % (names,)))
    if len(set(names)) != len(names):
        out.append(("names_unique", "names not unique: %r" % (names,)))
    cov = set(o.covobs.keys())
    N = 0
    for n in names:
        if n in cov:
            if "|" in n:
                out.append(("cov_name_sep", "covariance name with '|': %r" % n))
            if n in o.deltas and len(o.deltas[n]):
                out.append(("cov_disjoint", "name %r is both chain and covariance input" % n))
            c = o.covobs[n]
            C = np.asarray(c.cov)
            if C.ndim != 2 or C.shape[0] != C.shape[1]:
                out.append(("cov_shape", "cov of %r has shape %r" % (n, C.shape)))
            else:
                if not np.allclose(C, C.T, rtol=1e-12, atol=0):
                    out.append(("cov_symmetric", "cov of %r not symmetric" % n))
                else:
                    ev = np.linalg.eigvalsh((C + C.T) / 2)
                    if ev.min() < -1e-10 * max(1.0, abs(ev).max()):
                        out.append(("cov_psd", "cov of %r indefinite (min eigenvalue %g)" % (n, ev.min())))
                g = np.asarray(c.grad)
                if g.shape[0] != C.shape[0]:
                    out.append(("cov_grad_len", "grad of %r has length %d for %dx%d cov" % (n, g.shape[0], C.shape[0], C.shape[0])))
            continue
        if n not in o.idl or n not in o.deltas or n not in o.shape:
            out.append(("chain_maps", "chain %r missing from idl/deltas/shape" % n))
            continue
        idl = o.idl[n]
        if isinstance(idl, range):
            lst = list(idl)
            if idl.step <= 0:
                out.append(("idl_increasing", "range with step %d for %r" % (idl.step, n)))
        elif isinstance(idl, list):
            lst = idl
        else:
            out.append(("idl_type", "idl[%r] is %s" % (n, type(idl).__name__)))
            lst = list(idl)
        if not all(isinstance(i, (int, np.integer)) and not isinstance(i, (bool, np.bool_)) for i in lst):
            out.append(("idl_int", "non-integer configuration number in %r" % n))
        else:
            d = np.diff(np.asarray(lst, dtype=np.int64))
            if len(d) and d.min() <= 0:
                out.append(("idl_increasing", "configuration numbers of %r not strictly increasing" % n))
            elif len(lst) > 1:
                equally = len(set(d.tolist())) == 1
                if equally and not isinstance(idl, range):
                    out.append(("idl_range_form", "equally spaced idl of %r held as %s" % (n, type(idl).__name__)))
                if not equally and isinstance(idl, range):
                    out.append(("idl_range_form", "irregular idl of %r held as range" % n))
        ln = len(lst)
        if len(o.deltas[n]) != ln or o.shape[n] != ln:
            out.append(("chain_length", "%r: len(idl)=%d len(deltas)=%d shape=%r" % (n, ln, len(o.deltas[n]), o.shape[n])))
        dl = np.asarray(o.deltas[n])
        if dl.dtype.kind == "c":
            out.append(("deltas_real", "complex fluctuations in %r" % n))
        if n not in o.r_values:
            out.append(("chain_maps", "chain %r missing from r_values" % n))
        N += ln
    if o.N != N:
        out.append(("N_sum", "N=%r but chain lengths sum to %d" % (o.N, N)))
    extra = (set(o.deltas) | set(o.idl) | set(o.shape)) - set(names)
    if extra:
        out.append(("chain_maps", "entries for unknown chains %r" % sorted(extra)))
    if set(cov) - set(names):
        out.append(("cov_in_names", "covariance inputs %r not in names" % sorted(set(cov) - set(names))))
    for e in o.e_names:
        pass
    return out


def any_problems(x, strict_float=False):
    """Invariant on Obs / CObs / arrays / lists / Corr; returns list of (clause, message)."""
    import pyerrors as pe
    if isinstance(x, pe.Obs):
        return obs_problems(x, strict_float)
    if isinstance(x, pe.CObs):
        out = []
        for part in (x.real, x.imag):
            if isinstance(part, pe.Obs):
                out += obs_problems(part, strict_float)
            elif not is_real_scalar(part):
                out.append(("cobs_part", "CObs part is %s" % type(part).__name__))
        return out
    if isinstance(x, pe.Corr):
        out = []
        for c in x.content:
            if c is not None:
                for e in np.asarray(c).ravel():
                    out += any_problems(e, strict_float)
        return out
    if isinstance(x, (list, tuple, np.ndarray)):
        out = []
        for e in (x.ravel() if isinstance(x, np.ndarray) else x):
            out += any_problems(e, strict_float)
        return out
    if isinstance(x, dict):
        out = []
        for e in x.values():
            out += any_problems(e, strict_float)
        return out
    return []
