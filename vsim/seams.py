"""Seams: proxies the simulator installs over module-level names of pyerrors modules.

No hook in /repo is needed: `pyerrors.input.openQCD.os`, `.open`, `pyerrors.input.json.datetime`, ...
are ordinary module globals; the harness rebinds them for the duration of a run and restores them.
"""
import builtins
import contextlib
import errno
import os as _os
import random

from . import kernel


class OsProxy:
    """`os` look-alike whose walk()/listdir() return a seeded permutation of the sorted real listing."""

    def __init__(self, perm_seed, ctx=None):
        self._perm_seed = perm_seed
        self._n = 0
        self._ctx = ctx
        self.path = _os.path

    def _perm(self, names):
        names = sorted(names)
        if self._perm_seed is None:
            return names
        self._n += 1
        rnd = random.Random(kernel.H("perm", self._perm_seed, self._n))
        out = list(names)
        rnd.shuffle(out)
        if self._ctx is not None and len(out) > 1:
            self._ctx.fault("listing_permutation")
            if out != names:
                self._ctx.probe("listing_order_not_sorted")
        return out

    def walk(self, top, *a, **k):
        for dirpath, dirnames, filenames in _os.walk(top, *a, **k):
            dn = self._perm(dirnames)
            dirnames[:] = dn
            yield dirpath, dn, self._perm(filenames)

    def listdir(self, path="."):
        return self._perm(_os.listdir(path))

    def __getattr__(self, name):
        return getattr(_os, name)


class FaultyWriter:
    """File-object wrapper: raise OSError(err) when the k-th byte would be written; bytes before k persist."""

    def __init__(self, f, fail_at, err, ctx, state):
        self._f = f
        self._fail_at = fail_at
        self._err = err
        self._ctx = ctx
        self._state = state

    def write(self, data):
        if isinstance(data, str):
            # text mode handled by caller opening binary + codec; not used
            raise TypeError("FaultyWriter is binary")
        st = self._state
        if self._fail_at is not None and st["written"] + len(data) > self._fail_at:
            keep = max(0, self._fail_at - st["written"])
            if keep:
                self._f.write(data[:keep])
            self._f.flush()
            st["written"] += keep
            st["fired"] = True
            self._ctx.fault(self._err)
            raise OSError(getattr(errno, self._err), _os.strerror(getattr(errno, self._err)))
        n = self._f.write(data)
        st["written"] += len(data)
        return n

    def __getattr__(self, name):
        return getattr(self._f, name)

    def __enter__(self):
        return self

    def __exit__(self, *a):
        self._f.close()
        return False


@contextlib.contextmanager
def patched(pairs):
    """pairs: list of (module, attrname, value).  Sets and restores (deleting names that did not exist)."""
    saved = []
    try:
        for mod, name, val in pairs:
            had = name in vars(mod)
            saved.append((mod, name, had, vars(mod).get(name)))
            setattr(mod, name, val)
        yield
    finally:
        for mod, name, had, old in reversed(saved):
            if had:
                setattr(mod, name, old)
            else:
                try:
                    delattr(mod, name)
                except AttributeError:
                    pass


real_open = builtins.open


def make_path_class(osproxy):
    """pathlib.Path look-alike whose iterdir() yields a seeded permutation of the sorted real listing"""
    import pathlib

    class SimPath(pathlib.Path):
        def iterdir(self):
            names = osproxy._perm([q.name for q in pathlib.Path(str(self)).iterdir()])
            for n in names:
                yield self / n
    return SimPath
