"""Kernel: seed derivation, event log, violations, run context."""
import hashlib
import json
import os
import random
import shutil
import struct

DEFAULT_SEED = 20261001
HASHSEEDS = (0, 1, 7, 12345)          # PYTHONHASHSEED classes; run chunk c -> HASHSEEDS[c % 4]
CHUNK = 8                             # runs per dispatch unit


def H(*parts):
    """64-bit hash of the parts (stable across processes, versions, hash seeds)."""
    s = "|".join(str(p) for p in parts).encode()
    return int.from_bytes(hashlib.sha256(s).digest()[:8], "big")


def run_seed(seed, prop, r):
    return H("run", seed, prop, r)


def hashseed_of_run(r):
    return HASHSEEDS[(r // CHUNK) % len(HASHSEEDS)]


def rng_for(seed_int):
    return random.Random(seed_int)


def fbytes(x):
    """Canonical bytes of a value for digests: floats by IEEE bits, ints/strs by repr."""
    if x is None:
        return b"N"
    if isinstance(x, bool):
        return b"T" if x else b"F"
    if isinstance(x, int):
        return b"i" + str(x).encode()
    if isinstance(x, float):
        return b"f" + struct.pack("<d", x)
    if isinstance(x, complex):
        return b"c" + struct.pack("<dd", x.real, x.imag)
    if isinstance(x, str):
        return b"s" + x.encode("utf-8", "surrogateescape")
    if isinstance(x, bytes):
        return b"b" + x
    if isinstance(x, (list, tuple)):
        return b"[" + b",".join(fbytes(y) for y in x) + b"]"
    if isinstance(x, range):
        return b"r" + str((x.start, x.stop, x.step)).encode()
    if isinstance(x, dict):
        return b"{" + b",".join(fbytes(k) + b":" + fbytes(x[k]) for k in sorted(x, key=repr)) + b"}"
    try:
        import numpy as np
        if isinstance(x, np.ndarray):
            if x.dtype == object:
                return b"A" + fbytes(list(x.ravel()))
            return b"a" + str(x.dtype).encode() + str(x.shape).encode() + np.ascontiguousarray(x).tobytes()
        if isinstance(x, np.generic):
            return fbytes(x.item())
    except ImportError:
        pass
    return b"?" + type(x).__name__.encode()


def digest(*xs):
    h = hashlib.sha1()
    for x in xs:
        h.update(fbytes(x))
    return h.hexdigest()[:16]


class Violation(dict):
    """A property violation: clause, component, disc(riminator), detail."""


class Ctx:
    """Per-run context handed to a property's execute()."""

    def __init__(self, prop, tier, scratch):
        self.prop = prop
        self.tier = tier
        self.scratch = scratch
        self.events = []          # (step, actor, event, digest)
        self.violations = []
        self.faults = {}
        self.probes = {}
        self.sigs = set()
        self.compared = 0         # number of facts compared by an oracle
        self.step = 0
        self.sim_time = 0.0
        self.notes = {}

    # -- logging: never draws randomness, never reads a clock
    def log(self, actor, event, *vals):
        self.events.append((self.step, actor, event, digest(*vals)))

    def log_digest(self):
        h = hashlib.sha1()
        for e in self.events:
            h.update(repr(e).encode())
        return h.hexdigest()[:20]

    def fault(self, kind, n=1):
        self.faults[kind] = self.faults.get(kind, 0) + n

    def probe(self, name, n=1):
        self.probes[name] = self.probes.get(name, 0) + n

    def sig(self, *parts):
        self.sigs.add("/".join(str(p) for p in parts))

    def violation(self, clause, component, disc, detail, **extra):
        if len(self.violations) < 25:
            v = Violation(clause=clause, component=component, disc=disc, detail=str(detail)[:600], step=self.step)
            v.update(extra)
            self.violations.append(v)
        self.log("oracle", "VIOLATION", clause, component, disc)

    def gc_point(self, label="gc"):
        """run the cyclic garbage collector now (the only moment it runs when the property module sets GC_SEAM)"""
        import gc
        gc.collect()
        self.fault("gc_finalisation_point")
        self.log("gc", label)

    def fresh_dir(self, name="w"):
        d = os.path.join(self.scratch, name)
        if os.path.exists(d):
            shutil.rmtree(d)
        os.makedirs(d)
        return d


def jdump(x):
    return json.dumps(x, sort_keys=True, separators=(",", ":"))
