"""vsim - deterministic simulation with fault injection for fjosw/pyerrors.

See /verif/DESIGN.md.  One integer (VERIF_SEED) decides every plan; plans are
plain JSON data; a plan is executed in a freshly forked child of a pristine
worker interpreter; results are aggregated in run-index order.
"""
