"""C13 - jackknife and bootstrap export/import are exact resampling transforms (world C + partner interpreter).

The simulator-specific clause: the default bootstrap table is 'name-seeded, hence reproducible and chain-consistent',
i.e. independent of process, PYTHONHASHSEED, global-RNG state and call history.  The partner interpreter (another
hash seed, another RNG state, no shared history) recomputes every default table the session used.
"""
import math
import os
import random

import numpy as np

from .. import kernel
from ..world_session import objs

PROP = "c13"
NEEDS_PARTNER = True


def gen_plan(rng, tier):
    nobs = rng.randint(1, 4)
    names = [rng.choice(["A|r1", "A|r2", "ens_b", "H105|r005", "H105|r006", "x", "B2|rep2", "Ümlaut|r1"]) for _ in range(nobs)]
    if nobs > 1 and rng.random() < 0.6:
        names[1] = names[0]            # two observables of one chain
    specs = []
    for nm in names:
        n = rng.choice([5, 6, 8, 13, 32, rng.randint(5, 120), rng.randint(5, 500) if rng.random() < 0.1 else 20])
        specs.append({"name": nm, "n": n, "idl": objs.gen_idl(rng, n), "data": {"kind": rng.choice(["white", "ar1", "alt", "int", "const"]), "seed": rng.getrandbits(32),
                                                                                   "tau": 2.0, "mean": rng.choice([0.0, 1.0, -2.5, 1e3, 1e-3]), "amp": rng.choice([1.0, 0.01, 50.0])}})
    for s in specs[1:]:
        if s["name"] == specs[0]["name"] and rng.random() < 0.8:
            s["n"], s["idl"] = specs[0]["n"], specs[0]["idl"]
    if rng.random() < 0.5:
        for s in specs[1:]:
            s["n"], s["idl"] = specs[0]["n"], specs[0]["idl"]       # different chains of equal length
    for s in specs:
        if rng.random() < 0.25:
            s["value_shift"] = rng.choice([1e-3, -0.05, 0.5])     # central value != mean of the samples (as after importing resampled non-linear functions)
    ops = []
    for _ in range(rng.randint(4, 14)):
        r = rng.random()
        op = {"i": rng.randrange(16)}
        if r < 0.25:
            op.update({"op": "jackknife", "idl_given": rng.random() < 0.8})
        elif r < 0.55:
            op.update({"op": "boot_default", "samples": rng.choice([1, 7, 50, 200, 500, None]), "save": rng.random() < 0.7})
        elif r < 0.75:
            op.update({"op": "boot_explicit", "samples": rng.choice([3, 20, 64, 150, "n", "n", "n+1", "n-1"]), "seed": rng.getrandbits(30), "table": rng.choice(["uniform", "uniform", "identityish", "identityish", "constant"]),
                       "import": rng.random() < 0.7, "form": rng.choice(["int64", "int64", "int32", "uint8", "uint16", "int16", "list", "fortran", "view"])})
        elif r < 0.85:
            op.update({"op": "boot_roundtrip_default", "extra": rng.choice([0, 1, 10, 40])})
        else:
            op.update({"op": "rng_perturb", "seed": rng.choice([0, 1, 42, rng.getrandbits(31)]), "draw": rng.randint(0, 100)})
        ops.append(op)
    return {"specs": specs, "ops": ops}


def build(spec):
    import pyerrors as pe
    ch = {"n": spec["n"], "data": spec["data"]}
    o = pe.Obs([objs.chain_data(ch)], [spec["name"]], idl=[objs.idl_obj(spec["idl"])])
    if spec.get("value_shift"):
        j = o.export_jackknife()
        j[0] += spec["value_shift"] * (abs(j[0]) + 1.0)
        o = pe.import_jackknife(j, spec["name"], idl=[o.idl[spec["name"]]])
    return o


def partner_handler(req):
    """runs in the partner interpreter (other PYTHONHASHSEED), in a forked child"""
    import tempfile
    import pyerrors as pe
    np.random.seed(req.get("rng_seed", 5))
    np.random.random(17)
    o = pe.Obs([np.arange(req["n"], dtype=float)], [req["name"]])
    fd, fn = tempfile.mkstemp(dir="/dev/shm" if os.access("/dev/shm", os.W_OK) else None, prefix="vsim_partner_")
    os.close(fd)
    try:
        if req["samples"] is None:
            o.export_bootstrap(save_rng=fn)
        else:
            o.export_bootstrap(req["samples"], save_rng=fn)
        tab = np.loadtxt(fn, dtype=np.int64, ndmin=2)
    finally:
        os.unlink(fn)
    return tab.tobytes(), tab.shape, hash("vsim") % 1000


def execute(plan, ctx):
    import warnings
    import pyerrors as pe
    warnings.simplefilter("ignore")
    partner = ctx.clients["partner"]
    pool = [build(s) for s in plan["specs"]]
    datas = [np.array(o.deltas[o.names[0]] + o.r_values[o.names[0]]) for o in pool]
    digests = [objs.data_digest(o) for o in pool]
    tables = {}     # (name, n, samples) -> table
    d = ctx.fresh_dir("c13")
    for oi, op in enumerate(plan["ops"]):
        ctx.step = oi
        i = op["i"] % len(pool)
        o, x = pool[i], datas[i]
        n = len(x)
        name = o.names[0]
        scale = float(np.max(np.abs(x))) + 1e-300
        kind = op["op"]
        ctx.log("session", kind, i, {k: v for k, v in op.items() if k != "i"})
        if kind == "rng_perturb":
            np.random.seed(op["seed"])
            if op["draw"]:
                np.random.random(op["draw"])
            ctx.fault("rng_perturb")
            continue
        if kind == "jackknife":
            j = o.export_jackknife()
            ctx.compared += n + 1
            shifted = bool(plan["specs"][i].get("value_shift"))
            tot = math.fsum(x)
            exp = np.array([(tot - xi) / (n - 1) for xi in x])
            if shifted:
                # documented construction for derived observables: samples relative to the central value
                exp = np.array([(n * o.value - xi) / (n - 1) for xi in x])
            if j.shape != (n + 1,) or j[0] != o.value:
                ctx.violation("c13.jackknife_export", "export_jackknife", "entry0", "entry 0 is %r, central value %r (shape %r)" % (j[0] if len(j) else None, o.value, j.shape))
            elif not np.all(np.abs(j[1:] - exp) <= 32 * np.finfo(float).eps * (scale + abs(o.value))):
                k = int(np.argmax(np.abs(j[1:] - exp)))
                ctx.violation("c13.jackknife_export", "export_jackknife", "leave_one_out", "sample %d is %.17g, leave-one-out mean %.17g" % (k + 1, j[1 + k], exp[k]))
            # variance identity
            jm = float(np.mean(j[1:]))
            var = (n - 1) / n * float(np.sum((j[1:] - jm) ** 2))
            o.gamma_method(S=0)
            ctx.compared += 1
            if not shifted and not abs(var - o.dvalue ** 2) <= 1e-8 * max(var, o.dvalue ** 2) + 1e-20 * scale ** 2:
                ctx.violation("c13.jackknife_variance", "export_jackknife", "S0", "jackknife variance %.17g, squared naive error %.17g" % (var, o.dvalue ** 2))
            idl = o.idl[name]
            try:
                back = pe.import_jackknife(j, name, idl=[idl] if op["idl_given"] else None)
            except Exception as e:
                ctx.violation("c13.jackknife_import", "import_jackknife", "raised", "%s: %s" % (type(e).__name__, str(e)[:100]))
                continue
            ctx.compared += n
            bx = back.deltas[name] + back.r_values[name]
            if shifted:
                # central value != sample mean: the fluctuations and the value are what the transform preserves
                bx = back.deltas[name] + o.r_values[name]
            if back.names != [name] or back.value != o.value or not np.all(np.abs(bx - x) <= 64 * n * np.finfo(float).eps * (scale + abs(o.value))):
                ctx.violation("c13.jackknife_import", "import_jackknife", "restore", "observable not restored (max deviation %.3g, value %r vs %r)" % (float(np.max(np.abs(bx - x))), back.value, o.value))
            if op["idl_given"]:
                if list(back.idl[name]) != list(idl) or isinstance(back.idl[name], range) != isinstance(idl, range):
                    ctx.violation("c13.jackknife_import", "import_jackknife", "idl", "configuration list %r restored as %r" % (objs.idl_plain(idl), objs.idl_plain(back.idl[name])))
            ctx.sig("jackknife", "idl" if op["idl_given"] else "noidl", "range" if isinstance(idl, range) else "list", ncls(n), plan["specs"][i]["data"]["kind"])
        elif kind in ("boot_default", "boot_roundtrip_default"):
            samples = op.get("samples") if kind == "boot_default" else n + op["extra"]
            fn = os.path.join(d, "rng_%d.txt" % oi)
            st0 = np.random.get_state()
            try:
                if samples is None:
                    b = o.export_bootstrap(save_rng=fn)
                    ns = 500
                else:
                    b = o.export_bootstrap(samples, save_rng=fn)
                    ns = samples
            except Exception as e:
                ctx.violation("c13.bootstrap_export", "export_bootstrap", "raised", "%s: %s" % (type(e).__name__, str(e)[:100]))
                continue
            st1 = np.random.get_state()
            ctx.compared += 1
            if not (st0[0] == st1[0] and np.array_equal(st0[1], st1[1]) and st0[2:] == st1[2:]):
                ctx.violation("c13.seeding", "export_bootstrap", "global_rng", "the global NumPy RNG state was changed by a default export")
            R = np.loadtxt(fn, dtype=np.int64, ndmin=2)
            if not check_boot(ctx, o, x, b, R, ns, scale, "default"):
                continue
            key = (name, n, ns)
            ctx.compared += 1
            # seeded by the NAME: another chain name of the same length must not get the same random numbers
            for (nm2, n2, ns2), R2 in tables.items():
                if nm2 != name and n2 == n and ns2 == ns and ns * n >= 16 and np.array_equal(R2, R):
                    ctx.violation("c13.seeding", "export_bootstrap", "name_dependence", "chains %r and %r (n=%d, %d samples) were resampled with identical default random numbers" % (nm2, name, n, ns))
                    break
            if key in tables:
                if not np.array_equal(tables[key], R):
                    ctx.violation("c13.seeding", "export_bootstrap", "chain_consistent", "two default exports for chain %r (n=%d, %d samples) used different random numbers" % (name, n, ns))
                else:
                    ctx.probe("same_chain_same_table")
            else:
                tables[key] = R
                # the partner interpreter (other hash seed, other RNG state, no history) must produce the same table
                r = partner.call({"name": name, "n": n, "samples": samples, "rng_seed": oi})
                if r[0] != "ok":
                    ctx.violation("c13.seeding", "export_bootstrap", "other_process", "partner interpreter raised %s: %s" % (r[1], r[2]))
                else:
                    tab = np.frombuffer(r[1][0], dtype=np.int64).reshape(r[1][1])
                    if tab.shape != R.shape or not np.array_equal(tab, R):
                        ctx.violation("c13.seeding", "export_bootstrap", "other_process", "default random numbers differ between two interpreters (hash seeds) for chain %r" % name)
                    else:
                        ctx.probe("partner_table_identical")
            if kind == "boot_roundtrip_default":
                imp(ctx, pe, o, x, b, name, R, scale, "default")
            ctx.sig("boot_default", ncls(n), "s%s" % ("lt" if ns < n else ("eq" if ns == n else "gt")), kind, plan["specs"][i]["data"]["kind"], "perturbed" if ctx.faults.get("rng_perturb") else "fresh_rng")
        elif kind == "boot_explicit":
            rr = random.Random(kernel.H("table", op["seed"]))
            ns = op["samples"]
            if isinstance(ns, str):
                ns = max(1, {"n": n, "n+1": n + 1, "n-1": n - 1}[ns])
            if op["table"] == "uniform":
                R = np.array([[rr.randrange(n) for _ in range(n)] for _ in range(ns)], dtype=np.int64)
            elif op["table"] == "constant":
                R = np.zeros((ns, n), dtype=np.int64) + rr.randrange(n)
            else:
                R = np.array([[(k + b) % n if rr.random() < 0.8 else rr.randrange(n) for k in range(n)] for b in range(ns)], dtype=np.int64)
            Rc = R.copy()
            # the table as the caller holds it: any integer type, a nested list, Fortran order or a strided view
            form = op.get("form", "int64")
            if form == "uint8" and n > 255:
                form = "uint16"
            if form in ("int32", "uint8", "uint16", "int16"):
                Rcall = R.astype(form)
            elif form == "list":
                Rcall = R.tolist()
            elif form == "fortran":
                Rcall = np.asfortranarray(R)
            elif form == "view":
                big = np.zeros((ns, 2 * n), dtype=np.int64)
                big[:, ::2] = R
                Rcall = big[:, ::2]
            else:
                Rcall = R
            try:
                b = o.export_bootstrap(ns, random_numbers=Rcall)
            except Exception as e:
                ctx.violation("c13.bootstrap_export", "export_bootstrap", "raised", "%s: %s (table given as %s)" % (type(e).__name__, str(e)[:100], form))
                continue
            if not np.array_equal(np.asarray(Rcall), Rc):
                ctx.violation("c13.bootstrap_export", "export_bootstrap", "table_mutated", "the supplied random-number table was modified")
            if check_boot(ctx, o, x, b, R, ns, scale, op["table"]) and op["import"]:
                imp(ctx, pe, o, x, b, name, Rcall if form != "list" else R, scale, op["table"])
            ctx.sig("boot_explicit", op["table"], op.get("form", "int64"), "s%s" % ("lt" if ns < n else ("eq" if ns == n else "gt")), ncls(n), "import" if op["import"] else "export", "range" if isinstance(o.idl[name], range) else "list")
        ctx.compared += 1
        if objs.data_digest(o) != digests[i]:
            ctx.violation("c13.data_altered", kind, "-", "the observable's data changed")
            digests[i] = objs.data_digest(o)


def ncls(n):
    return "n5-8" if n <= 8 else ("n9-32" if n <= 32 else ("n33-128" if n <= 128 else "n>128"))


def check_boot(ctx, o, x, b, R, ns, scale, disc):
    n = len(x)
    ctx.compared += ns + 1
    if R.shape != (ns, n):
        ctx.violation("c13.bootstrap_export", "export_bootstrap", "table_shape", "random numbers of shape %r for %d samples x %d configurations" % (R.shape, ns, n))
        return False
    if R.min() < 0 or R.max() >= n:
        ctx.violation("c13.bootstrap_export", "export_bootstrap", "table_range", "random numbers outside [0, %d)" % n)
        return False
    if b.shape != (ns + 1,) or b[0] != o.value:
        ctx.violation("c13.bootstrap_export", "export_bootstrap", "entry0", "entry 0 is %r, central value %r, shape %r" % (b[0], o.value, b.shape))
        return False
    exp = np.array([math.fsum(x[R[k]]) / n for k in range(ns)])
    if not np.all(np.abs(b[1:] - exp) <= 64 * np.finfo(float).eps * scale):
        k = int(np.argmax(np.abs(b[1:] - exp)))
        ctx.violation("c13.bootstrap_export", "export_bootstrap", disc, "sample %d is %.17g, mean over the resampled configurations %.17g" % (k + 1, b[1 + k], exp[k]))
        return False
    return True


def imp(ctx, pe, o, x, b, name, R, scale, disc):
    n = len(x)
    ns = R.shape[0]
    proj = np.vstack([np.bincount(r, minlength=n) for r in R]) / n
    ctx.compared += 1
    if ns < n:
        try:
            pe.import_bootstrap(b, name, R)
            ctx.violation("c13.bootstrap_import", "import_bootstrap", "underdetermined", "fewer bootstrap samples (%d) than configurations (%d) accepted" % (ns, n))
        except ValueError:
            ctx.probe("underdetermined_rejected")
        return
    sv = np.linalg.svd(proj, compute_uv=False)
    if sv[-1] <= 1e-10 * sv[0]:
        ctx.probe("rank_deficient_not_judged")
        return
    cond = sv[0] / sv[-1]
    R0 = R.copy()
    b0 = b.copy()
    try:
        back = pe.import_bootstrap(b, name, R)
    except Exception as e:
        ctx.violation("c13.bootstrap_import", "import_bootstrap", "raised", "%s: %s" % (type(e).__name__, str(e)[:100]))
        return
    if not np.array_equal(b, b0):
        ctx.violation("c13.bootstrap_import", "import_bootstrap", "samples_mutated", "the array of bootstrap samples handed to the import was modified (a second import of it gives something else)")
        return
    if not np.array_equal(R, R0):
        ctx.violation("c13.bootstrap_import", "import_bootstrap", "table_mutated", "the supplied random-number table was modified by the import")
        return
    bx = back.deltas[name] + back.r_values[name]
    tol = 1e3 * cond * np.finfo(float).eps * scale * n
    ctx.compared += n
    if back.value != o.value or not np.all(np.abs(bx - x) <= tol):
        ctx.violation("c13.bootstrap_import", "import_bootstrap", "restore", "observable not restored: max deviation %.3g (tolerance %.3g, cond %.3g)" % (float(np.max(np.abs(bx - x))), tol, cond))
    else:
        ctx.probe("bootstrap_import_restored")
