import copy

from .. import shrinkers


def shrink(plan):
    yield from shrinkers.drop_pool_elements(plan, "groups", keep=1)
    for gi, g in enumerate(plan.get("groups", [])):
        if len(g["members"]) > 1:
            for mi in range(len(g["members"])):
                c = copy.deepcopy(plan)
                del c["groups"][gi]["members"][mi]
                yield c
        for mi, m in enumerate(g["members"]):
            for k, v in (("cov", None), ("subset", "full"), ("kind", "real"), ("mag", 1.0)):
                if m.get(k) != v:
                    c = copy.deepcopy(plan)
                    c["groups"][gi]["members"][mi][k] = v
                    yield c
    yield from shrinkers.simplify_ops(plan, drop_keys=("fault",), set_values=(("where", "session"), ("symbol", False), ("enstags", False), ("who", None)))
