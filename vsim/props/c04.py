"""C04 - every observable produced by the library is structurally well-formed (world C).

A session holds a pool of observables; a plan of producer/consumer operations (arithmetic in both operand
orders with every partner type, elementary functions, reweight, correlate, merge_obs, fits, roots, integrals,
json / dobs / pickle / jackknife round trips, covariance inputs, malformed constructor requests, interrupted
operations) is executed and the representation invariant is checked on *every* object returned and, after every
step, on every pool object (operands must stay well-formed, also after an interruption).
"""
import os
import pickle
import random

import numpy as np

from .. import kernel, wellformed
from ..world_session import objs

PROP = "c04"

FUNCS = ["sqrt", "log", "exp", "sin", "cos", "tan", "arcsin", "arccos", "arctan", "sinh", "cosh", "tanh", "arcsinh", "arccosh", "arctanh"]
BIN = ["add", "sub", "mul", "div", "pow"]
PARTNERS = ["obs", "obs", "cobs", "int", "float", "complex", "npf", "npi", "npc", "ndarray"]
MALFORMED = ["dup_names", "nonstring_name", "unsorted_idl", "dup_idl", "length_mismatch", "few_samples", "several_ensembles", "cov_name_sep",
             "cov_asymmetric", "cov_indefinite", "names_len", "idl_len", "idl_type"]


def layout(rng, R=None, irregular=True):
    """a single-ensemble layout: replica names + idl specs"""
    e = rng.choice(["A", "B2", "ens_c"])
    R = R or rng.choice([1, 1, 2, 3])
    nums = rng.sample([0, 1, 2, 3, 10, 11], R)
    names = ["%s|r%d" % (e, k) for k in nums] if (R > 1 or rng.random() < 0.6) else [e]
    chains = []
    for nm in names:
        n = rng.randint(5, 24)
        chains.append({"name": nm, "n": n, "idl": objs.gen_idl(rng, n, irregular)})
    return chains


def gen_plan(rng, tier):
    plan = {"specs": [objs.gen_obs_spec(rng, nmin=5, nmax=rng.choice([8, 20, 32])) for _ in range(rng.randint(2, 4))],
            "layouts": [layout(rng) for _ in range(2)], "seed": rng.getrandbits(32), "ops": []}
    for _ in range(rng.randint(10, 40)):
        r = rng.random()
        op = {"i": rng.randrange(64), "j": rng.randrange(64), "dst": rng.randrange(64)}
        if r < 0.28:
            op.update({"op": "bin", "f": rng.choice(BIN), "partner": rng.choice(PARTNERS), "order": rng.choice(["LR", "RL"]), "num": rng.randrange(64)})
        elif r < 0.38:
            op.update({"op": "func", "f": rng.choice(FUNCS + ["neg", "abs", "pos"])})
        elif r < 0.44:
            op.update({"op": "reweight", "lay": rng.randrange(2), "all_configs": rng.random() < 0.5, "subset": rng.choice(["full", "prefix", "stride", "random", "fewer_reps"]), "seed": rng.getrandbits(30)})
        elif r < 0.48:
            op.update({"op": "correlate", "lay": rng.randrange(2), "seed": rng.getrandbits(30)})
        elif r < 0.52:
            op.update({"op": "merge", "lay": rng.randrange(2), "seed": rng.getrandbits(30), "R": rng.choice([2, 3])})
        elif r < 0.58:
            op.update({"op": "fit", "kind": rng.choice(["least_squares", "fit_lin", "fit_lin_xobs", "total_least_squares", "correlated", "prior", "combined", "corr_fit", "plateau"]), "npts": rng.randint(3, 5)})
        elif r < 0.61:
            op.update({"op": "root"})
        elif r < 0.64:
            op.update({"op": "quad", "limits_obs": rng.random() < 0.5})
        elif r < 0.76:
            op.update({"op": "roundtrip", "via": rng.choice(["json", "json", "pickle", "dobs", "jackknife", "json_list", "json_corr", "bootstrap", "json_array", "json_dict_file"])})
        elif r < 0.80:
            op.update({"op": "cov_obs", "dim": rng.randint(1, 3), "seed": rng.getrandbits(30), "name": rng.choice(["covA", "sys_b", "Zc"])})
        elif r < 0.85:
            op.update({"op": "malformed", "what": rng.choice(MALFORMED), "seed": rng.getrandbits(30)})
        elif r < 0.88:
            op.update({"op": "construct_fuzz", "seed": rng.getrandbits(30)})
        elif r < 0.905:
            op.update({"op": "linalg", "f": rng.choice(["matmul", "inv", "det", "eigh", "jack_matmul", "einsum", "svd", "cholesky", "eigv", "eig", "pinv"]), "k": rng.randrange(64)})
        elif r < 0.925:
            op.update({"op": "producer", "f": rng.choice(["special", "special", "pseudo", "gen_corr", "mpm", "m_eff", "eigenvalue", "derived_array"]), "k": rng.randrange(64), "seed": rng.getrandbits(30)})
        elif r < 0.95:
            op.update({"op": "interrupt", "f": rng.choice(["add", "mul", "div", "exp", "gm", "json"]), "frac": round(rng.random(), 4)})
        elif r < 0.97:
            op.update({"op": "gm"})
        else:
            op.update({"op": "construct", "spec": objs.gen_obs_spec(rng, nmin=5, nmax=16)})
        plan["ops"].append(op)
    return plan


def primary(chains, seed, positive=False, subset=None):
    import pyerrors as pe
    rnd = random.Random(kernel.H("prim", seed))
    samples, names, idl = [], [], []
    for ch in chains:
        full = list(objs.idl_obj(ch["idl"]))
        data = [rnd.gauss(1.0, 0.3) for _ in full]
        if positive:
            data = [abs(x) + 0.1 for x in data]
        keep = list(range(len(full)))
        if subset is not None:
            keep = subset(ch["name"], full)
            if keep is None:
                continue
        if len(keep) < 5:
            keep = list(range(len(full)))
        samples.append(np.array([data[k] for k in keep]))
        names.append(ch["name"])
        idl.append([full[k] for k in keep])
    return pe.Obs(samples, names, idl=idl)


def number(kind, k):
    vals = {"int": [2, -1, 3, 0], "float": [0.5, -1.5, 2.0, 1e-3], "complex": [1 + 2j, -0.5j, 2 + 0j],
            "npf": [np.float64(1.5), np.float32(0.25)], "npi": [np.int64(2), np.int32(-3)], "npc": [np.complex128(1 - 1j)]}[kind]
    return vals[k % len(vals)]


PYOPS = {"add": lambda x, y: x + y, "sub": lambda x, y: x - y, "mul": lambda x, y: x * y, "div": lambda x, y: x / y, "pow": lambda x, y: x ** y}


def check(ctx, x, comp, disc, where="result"):
    """representation invariant on a returned object; True if well-formed"""
    ctx.compared += 1
    probs = wellformed.any_problems(x)
    if probs:
        ctx.violation("c04." + probs[0][0], comp, disc, "%s: %s" % (where, probs[0][1]))
        return False
    return True


def closed(ctx, res, comp, disc, allow_array=False):
    """closure: Obs or CObs (or array of them), never a bare number or complex-valued Obs"""
    import pyerrors as pe
    ctx.compared += 1
    if allow_array and isinstance(res, np.ndarray):
        ok = all(isinstance(e, (pe.Obs, pe.CObs)) for e in res.ravel())
    else:
        ok = isinstance(res, (pe.Obs, pe.CObs))
    if not ok:
        ctx.violation("c04.closure", comp, disc, "result is %s%s" % (type(res).__name__, (" of " + type(res.ravel()[0]).__name__) if isinstance(res, np.ndarray) and res.size else ""))
        return False
    return True


def usable(x):
    """finite and moderate: may re-enter the pool"""
    import pyerrors as pe
    parts = [x.real, x.imag] if isinstance(x, pe.CObs) else [x]
    for p in parts:
        if isinstance(p, pe.Obs):
            if wellformed.obs_problems(p):
                return False
            if not np.isfinite(p.value) or abs(p.value) > 1e12:
                return False
            if any((not np.all(np.isfinite(d))) or (len(d) and np.max(np.abs(d)) > 1e12) for d in p.deltas.values()):
                return False
            if any(not np.all(np.isfinite(c.grad)) for c in p.covobs.values()):
                return False
            if any(not np.isfinite(v) for v in p.r_values.values()):
                return False        # replica mean outside the domain of an applied function
        elif not np.isfinite(p):
            return False
    return True


def flag_type_ok(x):
    import pyerrors as pe
    return not isinstance(x, pe.Obs) or type(x.reweighted) is bool


def taint_of(x):
    import pyerrors as pe
    if isinstance(x, pe.CObs):
        return any(taint_of(p) for p in (x.real, x.imag))
    return bool(getattr(x, "reweighted", False))


def execute(plan, ctx):
    import warnings
    import pyerrors as pe
    warnings.simplefilter("ignore")
    pool = [objs.build_obs(s) for s in plan["specs"]]
    for o in pool:
        check(ctx, o, "construct", "spec")
    for oi, op in enumerate(plan["ops"]):
        ctx.step = oi
        kind = op["op"]
        i, j = op["i"] % len(pool), op["j"] % len(pool)
        a = pool[i]
        ctx.log("session", kind, {k: v for k, v in op.items() if k != "spec"})
        results = []
        try:
            results = step(ctx, op, pool, a, pool[j], plan, pe)
        except objs.SimInterrupt:
            pass
        # every pool object must still be well-formed (operands are never damaged)
        for k, o in enumerate(pool):
            probs = wellformed.any_problems(o)
            ctx.compared += 1
            if probs:
                ctx.violation("c04.operand_damaged", kind + ("." + op["f"] if "f" in op else ""), probs[0][0], "pool object %d after the step: %s" % (k, probs[0][1]))
                pool[k] = objs.build_obs(plan["specs"][0])
        for res in results or []:
            if isinstance(res, (pe.Obs, pe.CObs)) and usable(res):
                if len(pool) < 8:
                    pool.append(res)
                else:
                    pool[op["dst"] % len(pool)] = res
    ctx.notes["pool"] = len(pool)


def oi_seed(op):
    return (op["i"], op["j"], op["dst"])


def obs_only(x, pe):
    return x if isinstance(x, pe.Obs) else (x.real if isinstance(x.real, pe.Obs) else x.imag)


def step(ctx, op, pool, a, b, plan, pe):
    kind = op["op"]
    if kind == "construct":
        o = objs.build_obs(op["spec"])
        check(ctx, o, "construct", "spec")
        ctx.sig("construct")
        return [o]
    if kind == "bin":
        f, pk, order = op["f"], op["partner"], op["order"]
        if pk == "obs":
            P = b if isinstance(b, pe.Obs) else obs_only(b, pe)
        elif pk == "cobs":
            cands = [x for x in pool if isinstance(x, pe.CObs)]
            P = cands[op["num"] % len(cands)] if cands else pe.CObs(obs_only(b, pe), obs_only(a, pe))
        elif pk == "ndarray":
            P = np.array([number("float", op["num"]), number("int", op["num"] + 1), 1.25])
        else:
            P = number(pk, op["num"])
        left_c = isinstance(a, pe.CObs)
        # supported domain (DESIGN C04): ** only between real observables and real numbers
        if f == "pow" and (left_c or pk in ("cobs", "complex", "npc", "ndarray")):
            return []
        if f == "pow" and order == "RL":
            base = P.value if isinstance(P, pe.Obs) else P
            if not (base > 0) or not (abs(a.value) < 50) or base > 1e6:
                return []       # negative base with real exponent leaves the real numbers; huge exponents overflow
        if f == "pow" and order == "LR":
            ex = P.value if isinstance(P, pe.Obs) else P
            if not (abs(a.value) < 50 and abs(ex) < 20) or (a.value <= 0 and float(ex) != int(ex)) or (a.value == 0 and ex < 0):
                return []       # outside the real domain of ** / overflow
        if f == "div":
            den = (P if order == "LR" else a)
            dv = den.value if isinstance(den, pe.Obs) else (None if isinstance(den, (pe.CObs, np.ndarray)) else den)
            if dv is not None and dv == 0:
                return []
        fn = PYOPS[f]
        comp = "bin." + f
        disc = "%s/%s/%s" % ("cobs" if left_c else "obs", pk, order)
        try:
            res = fn(a, P) if order == "LR" else fn(P, a)
        except ZeroDivisionError:
            ctx.probe("zero_division")
            return []
        except Exception as e:
            ctx.violation("c04.closure", comp, disc, "raised %s: %s" % (type(e).__name__, str(e)[:120]))
            return []
        ctx.sig(comp, disc)
        if not closed(ctx, res, comp, disc, allow_array=(pk == "ndarray")):
            return []
        check(ctx, res, comp, disc)
        taint = taint_of(a) or taint_of(P)
        outs = list(res.ravel()) if isinstance(res, np.ndarray) else [res]
        for r_ in outs:
            ctx.compared += 1
            if isinstance(r_, (pe.Obs, pe.CObs)) and taint_of(r_) != taint and not isinstance(r_, pe.CObs):
                ctx.violation("c04.reweighted_flag", comp, disc, "reweighted=%r, operands' flags OR to %r" % (taint_of(r_), taint))
        return outs
    if kind == "func":
        f = op["f"]
        if isinstance(a, pe.CObs):
            if f not in ("neg", "abs", "pos"):
                return []
        elif f == "log" and a.value == 0:
            return []
        try:
            if f == "neg":
                res = -a
            elif f == "abs":
                res = abs(a)
            elif f == "pos":
                res = +a
            else:
                res = getattr(np, f)(a)
        except Exception as e:
            ctx.violation("c04.closure", "func." + f, "cobs" if isinstance(a, pe.CObs) else "obs", "raised %s: %s" % (type(e).__name__, str(e)[:120]))
            return []
        disc = "cobs" if isinstance(a, pe.CObs) else "obs"
        ctx.sig("func." + f, disc)
        if closed(ctx, res, "func." + f, disc):
            check(ctx, res, "func." + f, disc)
            if isinstance(res, pe.Obs) and res.reweighted != taint_of(a):
                ctx.violation("c04.reweighted_flag", "func." + f, disc, "reweighted=%r, operand's flag %r" % (res.reweighted, taint_of(a)))
        return [res] if f != "pos" else []
    if kind == "reweight":
        chains = plan["layouts"][op["lay"]]
        w = primary(chains, op["seed"], positive=True)
        rnd = random.Random(kernel.H("sub", op["seed"]))
        mode = op["subset"]
        drop = rnd.randrange(len(chains)) if (mode == "fewer_reps" and len(chains) > 1) else None

        def subset(name, full):
            if drop is not None and name == chains[drop]["name"]:
                return None
            if mode == "prefix":
                return list(range(max(5, len(full) // 2)))
            if mode == "stride":
                return list(range(0, len(full), 2))
            if mode == "random":
                return sorted(rnd.sample(range(len(full)), max(5, len(full) - 3)))
            return list(range(len(full)))
        o = primary(chains, op["seed"] + 1, subset=subset)
        try:
            res = pe.reweight(w, [o], all_configs=op["all_configs"])[0]
        except Exception as e:
            ctx.violation("c04.no_result", "reweight", mode, "raised %s: %s" % (type(e).__name__, str(e)[:120]))
            return []
        ctx.sig("reweight", mode, "all" if op["all_configs"] else "own", "R%d" % len(chains))
        check(ctx, res, "reweight", mode)
        ctx.compared += 1
        if res.reweighted is not True:
            ctx.violation("c04.reweighted_flag", "reweight", mode, "reweighted result has reweighted=%r" % (res.reweighted,))
        return [res]
    if kind == "correlate":
        chains = plan["layouts"][op["lay"]]
        x, y = primary(chains, op["seed"]), primary(chains, op["seed"] + 7)
        res = pe.correlate(x, y)
        ctx.sig("correlate", "R%d" % len(chains))
        check(ctx, res, "correlate", "-")
        return [res]
    if kind == "merge":
        rnd = random.Random(kernel.H("merge", op["seed"]))
        e = "Mg"
        nums = rnd.sample([0, 1, 2, 5, 10], op["R"])
        parts = []
        rw = rnd.random() < 0.4          # merge replicas that were reweighted one by one
        for k in nums:
            n = rnd.randint(5, 16)
            chain = {"name": "%s|r%d" % (e, k), "n": n, "idl": objs.gen_idl(rnd, n)}
            part = primary([chain], op["seed"] + k)
            if rw and (k != nums[0] or rnd.random() < 0.7):
                part = pe.reweight(primary([chain], op["seed"] + 100 + k, positive=True), [part])[0]
            parts.append(part)
        res = pe.merge_obs(parts)
        ctx.sig("merge", "R%d" % op["R"], "rw" if rw else "plain")
        check(ctx, res, "merge_obs", "-")
        taint = any(taint_of(x) for x in parts)
        ctx.compared += 1
        if type(res.reweighted) is not bool or res.reweighted != taint:
            ctx.violation("c04.reweighted_flag", "merge_obs", "-", "merged observable has reweighted=%r (%s), parts' flags OR to %r" % (res.reweighted, type(res.reweighted).__name__, taint))
        else:
            # the flag must survive what users do next with the merged observable
            d1 = res * 2.0 + 1.0
            if d1.reweighted != taint:
                ctx.violation("c04.reweighted_flag", "merge_obs", "derived", "observable derived from the merged one has reweighted=%r, expected %r" % (d1.reweighted, taint))
            try:
                back = pe.input.json.import_json_string(pe.input.json.create_json_string(res), verbose=False)
                if back.reweighted != taint:
                    ctx.violation("c04.reweighted_flag", "merge_obs", "json", "json round trip of the merged observable gives reweighted=%r" % (back.reweighted,))
            except Exception as e_:
                ctx.violation("c04.no_result", "merge_obs", "json", "json export of the merged observable raised %s: %s" % (type(e_).__name__, str(e_)[:100]))
        return [res]
    if kind == "fit":
        ys = [obs_only(pool[(op["i"] + k) % len(pool)], pe) for k in range(op["npts"])]
        xs = [0.5 + 1.0 * k for k in range(op["npts"])]
        try:
            for y in ys:
                y.gamma_method()
        except Exception:
            return []
        if any(not (y.dvalue > 0) or not np.isfinite(y.dvalue) for y in ys):
            return []
        fk = op["kind"]
        try:
            if fk == "least_squares":
                out = pe.fits.least_squares(xs, ys, lambda p, x: p[0] + p[1] * x, silent=True).fit_parameters
            elif fk == "correlated":
                out = pe.fits.least_squares(xs, ys, lambda p, x: p[0] + p[1] * x, silent=True, correlated_fit=True).fit_parameters
            elif fk == "prior":
                out = pe.fits.least_squares(xs, ys, lambda p, x: p[0] + p[1] * x, priors=["1.0(5.0)", "0.0(9.0)"], silent=True).fit_parameters
            elif fk == "combined":
                h = max(2, len(xs) // 2)
                out = pe.fits.least_squares({"a": xs[:h], "b": xs[h:] or xs[:1]}, {"a": ys[:h], "b": ys[h:] or ys[:1]},
                                            {"a": lambda p, x: p[0] + p[1] * x, "b": lambda p, x: p[0] + p[2] * x}, silent=True).fit_parameters
            elif fk in ("corr_fit", "plateau"):
                if len(set(tuple(y.names) for y in ys)) != 1 or len(set(repr(y.idl) for y in ys)) != 1:
                    return []
                cr = pe.Corr(ys)
                if fk == "corr_fit":
                    out = cr.fit(lambda p, x: p[0] + p[1] * x, silent=True).fit_parameters
                else:
                    out = [cr.plateau([0, len(ys) - 1], method="avg")]
            elif fk == "fit_lin":
                out = pe.fits.fit_lin(xs, ys)
            else:
                xo = [pe.cov_Obs(x, (0.01 * (1 + k)) ** 2, "xerr%d" % k) for k, x in enumerate(xs)]
                for x in xo:
                    x.gamma_method()
                if fk == "fit_lin_xobs":
                    out = pe.fits.fit_lin(xo, ys)
                else:
                    out = pe.fits.total_least_squares(xo, ys, lambda p, x: p[0] + p[1] * x, silent=True).fit_parameters
        except Exception as e:
            ctx.probe("fit_raised_" + type(e).__name__)
            return []
        ctx.sig("fit", fk, "cov" if any(y.cov_names for y in ys) else "mc", "E%d" % len(set(e for y in ys for e in y.mc_names)))
        taint = any(taint_of(y) for y in ys)
        for p in out:
            check(ctx, p, "fit." + fk, "-")
            ctx.compared += 1
            if isinstance(p, pe.Obs) and fk not in ("prior",) and p.reweighted != taint:
                ctx.violation("c04.reweighted_flag", "fit." + fk, "-", "fit parameter reweighted=%r, data flags OR to %r" % (p.reweighted, taint))
        return list(out)
    if kind == "root":
        d = obs_only(a, pe)
        if abs(d.value) < 1e-3 or not np.isfinite(d.value):
            return []
        try:
            res = pe.roots.find_root(d, lambda x, dd: x * dd - 2.0, guess=2.0 / d.value)
        except Exception as e:
            ctx.probe("root_raised_" + type(e).__name__)
            return []
        ctx.sig("root")
        check(ctx, res, "find_root", "-")
        return [res]
    if kind == "quad":
        p0, p1 = obs_only(a, pe), obs_only(b, pe)
        try:
            if op["limits_obs"]:
                res = pe.integrate.quad(lambda p, x: p[0] + p[1] * x, [p0, p1], 0.0, 1.0 + 0.0 * p0 + 0.5)[0]
            else:
                res = pe.integrate.quad(lambda p, x: p[0] + p[1] * x, [p0, 2.0], 0.0, 1.5)[0]
        except Exception as e:
            ctx.probe("quad_raised_" + type(e).__name__)
            return []
        ctx.sig("quad", op["limits_obs"])
        check(ctx, res, "integrate.quad", "-")
        return [res]
    if kind == "roundtrip":
        via = op["via"]
        o = obs_only(a, pe)
        try:
            if via == "json":
                res = pe.input.json.import_json_string(pe.input.json.create_json_string(o), verbose=False)
            elif via == "json_list":
                res = pe.input.json.import_json_string(pe.input.json.create_json_string([o, obs_only(b, pe)]), verbose=False)
            elif via == "json_corr":
                c = pe.Corr([o, o * 2.0])
                res = list(x[0] for x in pe.input.json.import_json_string(pe.input.json.create_json_string(c), verbose=False).content)
            elif via == "json_array":
                arr = np.array([[o, o + 1.0], [2.0 * o, o * o]], dtype=object)
                res = list(pe.input.json.import_json_string(pe.input.json.create_json_string(arr), verbose=False).ravel())
            elif via == "json_dict_file":
                fn = os.path.join(ctx.scratch, "c04_dict")
                pe.input.json.dump_dict_to_json({"a": o, 1: [o, 2.0 * o], "n": {"x": np.array([o, -o], dtype=object)}}, fn)
                back = pe.input.json.load_json_dict(fn, verbose=False)
                res = [back["a"]] + list(back["1"]) + list(back["n"]["x"])
            elif via == "bootstrap":
                if len(o.names) != 1 or o.cov_names or o.N > 40:
                    return []
                rr_ = random.Random(kernel.H("bt", oi_seed(op)))
                R_ = np.array([[(k_ + b_) % o.N if rr_.random() < 0.8 else rr_.randrange(o.N) for k_ in range(o.N)] for b_ in range(o.N + 5)], dtype=np.int64)
                res = pe.import_bootstrap(o.export_bootstrap(o.N + 5, random_numbers=R_), o.names[0], R_)
            elif via == "pickle":
                res = pickle.loads(pickle.dumps(o))
            elif via == "dobs":
                if any("|" not in n for n in o.names if n not in o.cov_names) or len(o.mc_names) == 0:
                    return []
                res = pe.input.dobs.import_dobs_string(pe.input.dobs.create_dobs_string([o], "nm").encode("utf-8"))[0]
            else:
                if len(o.names) != 1 or o.cov_names:
                    return []
                res = pe.import_jackknife(o.export_jackknife(), o.names[0], idl=[o.idl[o.names[0]]])
        except Exception as e:
            import traceback
            if os.environ.get("VSIM_TB"): traceback.print_exc()
            ctx.violation("c04.no_result", "roundtrip." + via, "-", "raised %s: %s" % (type(e).__name__, str(e)[:160]))
            return []
        ctx.sig("roundtrip", via, "cov" if o.cov_names else "mc", "E%d" % len(o.mc_names))
        outs = res if isinstance(res, list) else [res]
        for r_ in outs:
            check(ctx, r_, "roundtrip." + via, "-")
            ctx.compared += 1
            if via in ("json", "pickle") and isinstance(r_, pe.Obs) and r_.reweighted != o.reweighted:
                ctx.violation("c04.reweighted_flag", "roundtrip." + via, "-", "flag %r became %r" % (o.reweighted, r_.reweighted))
        return outs[:1]
    if kind == "cov_obs":
        cd = objs.COVS[op["name"]]
        dim = cd["dim"]
        cov = np.array(cd["cov"])
        means = cd["means"]
        res = pe.cov_Obs(means if dim > 1 else means[0], cov if dim > 1 else float(cov[0, 0]), op["name"])
        outs = res if isinstance(res, list) else [res]
        ctx.sig("cov_obs", dim)
        for r_ in outs:
            check(ctx, r_, "cov_Obs", "dim%d" % dim)
        return outs[:1]
    if kind == "malformed":
        what = op["what"]
        rr = random.Random(kernel.H("mal", op["seed"]))
        n = rr.randint(5, 12)
        x = np.array([rr.gauss(0, 1) for _ in range(n)])
        try:
            if what == "dup_names":
                pe.Obs([x, x], ["A|r1", "A|r1"])
            elif what == "nonstring_name":
                v = rr.randrange(4)
                if v == 0:
                    pe.Obs([x], [rr.choice([1, 2.5, None, ("A",), np.int64(3), b"A|r1"])])
                elif v == 1:
                    pe.Obs([x, x], ["A|r1", rr.choice([5, np.int64(2), None, b"A|r2"])])
                elif v == 2:
                    pe.Obs([x, x, x], [rr.choice([7, None]), "A|r1", "A|r2"])
                else:
                    pe.Obs([x, x], [np.str_("A|r1"), 3.5])
            elif what == "unsorted_idl":
                v = rr.randrange(5)
                if v == 0:
                    idl = list(range(1, n + 1))
                    k = rr.randrange(n - 1)
                    idl[k], idl[k + 1] = idl[k + 1], idl[k]
                elif v == 1:
                    idl = list(range(2 * n, 0, -2))              # equally spaced but decreasing
                elif v == 2:
                    idl = np.arange(n, 0, -1)                    # the same as a NumPy array
                elif v == 3:
                    idl = sorted(rr.sample(range(1, 4 * n), n))  # irregular, last two swapped
                    idl[-1], idl[-2] = idl[-2], idl[-1]
                else:
                    idl = list(range(1, n)) + [0]                # only the last entry out of order
                pe.Obs([x], ["A|r1"], idl=[idl])
            elif what == "dup_idl":
                v = rr.randrange(4)
                idl = list(range(1, n + 1)) if v < 2 else sorted(rr.sample(range(1, 4 * n), n))
                k = rr.randrange(n - 1) if v % 2 == 0 else n - 2     # somewhere / at the very end
                idl[k + 1] = idl[k]
                if v == 3:
                    idl = np.array(idl)
                if rr.random() < 0.15:
                    idl = [7] * n                                     # all equal
                pe.Obs([x], ["A|r1"], idl=[idl])
            elif what == "length_mismatch":
                pe.Obs([x], ["A|r1"], idl=[range(1, n + rr.choice([0, 2, 3]))]) if rr.random() < 0.5 else pe.Obs([x], ["A|r1"], idl=[list(range(1, n))])
            elif what == "few_samples":
                if rr.random() < 0.5:
                    pe.Obs([x[:rr.randint(0, 4)]], ["A|r1"])
                else:
                    pe.Obs([x, x[:rr.randint(1, 4)]], ["A|r1", "A|r2"])        # only one replica too short
            elif what == "several_ensembles":
                pair = rr.choice([["A|r1", "B|r1"], ["A", "A2"], ["A|r1", "A2|r1"], ["N200|r1", "N200b|r1"], ["ens|r1", "ens_b|r2"], ["B", "A"], ["A2", "A"],
                                  ["A|r1", "A|r2", "Ab|r1"], ["x|1", "xy|1"]])
                if rr.random() < 0.3 and len(pair) == 2:
                    # the same request through merge_obs (which relies on the constructor's check)
                    pe.merge_obs([pe.Obs([x], [pair[0]]), pe.Obs([x + 1.0], [pair[1]])])
                else:
                    pe.Obs([x + 0.1 * k for k in range(len(pair))], pair)
            elif what == "cov_name_sep":
                pe.cov_Obs(1.0, 0.1, "cov|r1")
            elif what == "cov_asymmetric":
                kw = {"grad": rr.choice([[1.0, 0.0], [0.5, 0.5], np.array([0.0, 2.0])])} if rr.random() < 0.5 else {}
                sc_ = rr.choice([1.0, 1.0, 1e-6, 1e-10, 1e-14, 1e6])        # the magnitude of a covariance says nothing about its symmetry
                if rr.random() < 0.5:
                    pe.cov_Obs([1.0, 2.0], sc_ * np.array([[1.0, 0.3], [0.1, 1.0]]), "covM", **kw)
                else:
                    pe.cov_Obs([1.0, 2.0, 3.0], sc_ * np.array([[1.0, 0.0, 0.2], [0.0, 1.0, 0.0], [0.1, 0.0, 1.0]]), "covM", **({"grad": [1.0, 0.0, 0.0]} if kw else {}))
            elif what == "cov_indefinite":
                kw = {"grad": rr.choice([[1.0, 0.0], [0.5, 0.5]])} if rr.random() < 0.5 else {}
                v = rr.randrange(3)
                sc_ = rr.choice([1.0, 1.0, 1e-6, 1e-10, 1e6])
                if v == 0:
                    pe.cov_Obs([1.0, 2.0], sc_ * np.array([[1.0, 2.0], [2.0, 1.0]]), "covM", **kw)
                elif v == 1:
                    pe.cov_Obs([1.0, 2.0], [0.5 * sc_, -0.1 * sc_], "covM", **kw)                  # negative entry in a 1d list of variances
                else:
                    pe.cov_Obs(1.0, -0.3 * sc_, "covM", **({"grad": [1.0]} if kw else {}))    # negative variance
            elif what == "names_len":
                pe.Obs([x, x], ["A|r1"])
            elif what == "idl_len":
                pe.Obs([x, x], ["A|r1", "A|r2"], idl=[range(1, n + 1)])
            else:
                pe.Obs([x], ["A|r1"], idl=[rr.choice([(1, 2, 3, 4, 5), "12345", 7])])
            raised = False
        except Exception:
            raised = True
        ctx.compared += 1
        ctx.sig("malformed", what)
        if not raised:
            ctx.violation("c04.malformed_accepted", "construct", what, "malformed construction request (%s) was accepted" % what)
        else:
            ctx.probe("malformed_rejected")
        return []
    if kind == "linalg":
        f = op["f"]
        obs = [obs_only(x, pe) for x in pool]
        o1, o2, o3, o4 = (obs[(op["i"] + t) % len(obs)] for t in range(4))
        M = np.array([[o1 + 5.0, o2 * 0.1], [o2 * 0.1, o3 + 7.0]], dtype=object)
        try:
            if f == "matmul":
                res = pe.linalg.matmul(M, M)
            elif f == "inv":
                res = pe.linalg.inv(M)
            elif f == "det":
                res = pe.linalg.det(M)
            elif f == "eigh":
                res = pe.linalg.eigh(M)
            elif f == "svd":
                res = pe.linalg.svd(M)
            elif f == "cholesky":
                res = pe.linalg.cholesky(M)
            elif f == "eigv":
                res = pe.linalg.eigv(M)
            elif f == "eig":
                res = pe.linalg.eig(M)
            elif f == "pinv":
                res = pe.linalg.pinv(M)
            elif f == "einsum":
                if len(o1.mc_names) != 1 or o1.names != o2.names or o1.names != o3.names or o1.cov_names or len(o1.names) != 1:
                    return []
                res = pe.linalg.einsum("ij,jk->ik", M, M)
            else:
                if len(o1.mc_names) != 1 or o1.names != o2.names or o1.names != o3.names or o1.cov_names or len(o1.names) != 1:
                    return []
                res = pe.linalg.jack_matmul(M, M)
        except Exception as e:
            ctx.probe("linalg_raised_" + type(e).__name__)
            return []
        ctx.sig("linalg", f, "E%d" % len(set(e for x in (o1, o2, o3) for e in x.mc_names)))
        flat = []

        def walk(x):
            if isinstance(x, (pe.Obs, pe.CObs)):
                flat.append(x)
            elif isinstance(x, (list, tuple, np.ndarray)):
                for e in (x.ravel() if isinstance(x, np.ndarray) else x):
                    walk(e)
        walk(res)
        for r_ in flat:
            check(ctx, r_, "linalg." + f, "-")
        return flat[:1]
    if kind == "producer":
        # further library functions that return observables: special functions, generators of synthetic data (their
        # random numbers come from the global NumPy generator, which the simulation seeds), matrix pencil, effective masses
        f = op["f"]
        obs = [obs_only(x, pe) for x in pool]
        o1, o2, o3, o4 = (obs[(op["i"] + t) % len(obs)] for t in range(4))
        rr = random.Random(kernel.H("prod", op["seed"]))
        np.random.seed(kernel.H("nprand", op["seed"]) % (2 ** 32))
        disc = "-"
        try:
            if f == "special":
                name, args = rr.choice([("erf", "x"), ("erfc", "x"), ("erfinv", "u"), ("erfcinv", "u"), ("expit", "x"), ("logit", "u"), ("gamma", "p"), ("gammaln", "p"),
                                        ("rgamma", "p"), ("digamma", "p"), ("psi", "p"), ("polygamma", "1p"), ("i0", "x"), ("i1", "x"), ("j0", "x"), ("j1", "x"),
                                        ("y0", "p"), ("y1", "p"), ("iv", "2p"), ("ive", "2p"), ("jn", "2p"), ("yn", "2p"), ("kn", "2p"), ("beta", "2p"), ("betaln", "2p"),
                                        ("betainc", "abu"), ("gammainc", "2p"), ("gammaincc", "2p"), ("multigammaln", "p2"), ("logsumexp", "x"), ("gammasgn", "p")])
                disc = name
                fn = getattr(pe.special, name)
                z = o1 * (1.0 / max(abs(o1.value), 1e-300))         # central value +-1
                pos = z * z + 0.5                                   # about 1.5
                unit = 0.3 + 0.1 * z                                # inside (0, 1)
                x0 = {"x": z, "u": unit, "p": pos, "1p": pos, "2p": pos, "abu": unit, "p2": pos + 1.0}[args]
                call = {"x": lambda v: fn(v), "u": lambda v: fn(v), "p": lambda v: fn(v), "1p": lambda v: fn(1, v), "2p": lambda v: fn(2, v),
                        "abu": lambda v: fn(1.5, 2.5, v), "p2": lambda v: fn(v, 2)}[args]
                res = pe.derived_observable(lambda x, **kw: call(x[0]), [x0])
            elif f == "pseudo":
                nm = rr.choice(["A|r1", "Pens", "B2|rep3"])
                res = pe.pseudo_Obs(rr.choice([0.0, 1.5, -2e-4, 1e6]), rr.choice([0.0, 0.1, 1e-9, 3.0]), nm, samples=rr.choice([5, 17, 100]))
                disc = "dvalue0" if res.is_zero() else "-"
            elif f == "gen_corr":
                dim = rr.choice([1, 2, 3])
                A_ = np.array([[rr.uniform(-1, 1) for _ in range(dim)] for _ in range(dim)])
                res = pe.misc.gen_correlated_data([rr.uniform(-2, 2) for _ in range(dim)], A_ @ A_.T + 0.1 * np.eye(dim), rr.choice(["Gens|r1", "Gens"]),
                                                  tau=rr.choice([0.5, 2.0, [0.5] * dim]), samples=rr.choice([10, 50]))
                disc = "dim%d" % dim
            elif f == "mpm":
                if o1.cov_names:
                    return []
                base = [o1 * 0.0 + (np.exp(-0.3 * t) + 0.5 * np.exp(-0.9 * t)) * (1.0 + 0.01 * (o1 - o1.value) * (1 + 0.1 * t)) for t in range(10)]
                res = pe.mpm.matrix_pencil_method(base, k=rr.choice([1, 2]))
            elif f in ("m_eff", "eigenvalue"):
                if o1.cov_names:
                    return []
                fl = (o1 - o1.value)
                if f == "m_eff":
                    T = 8
                    var = rr.choice(["log", "cosh", "sinh", "periodic", "arccosh", "logsym"])
                    disc = var
                    if var in ("cosh", "periodic", "arccosh"):
                        cont = [(np.exp(-0.4 * t) + np.exp(-0.4 * (T - t))) * (1.0 + 0.01 * fl * (1 + 0.05 * t)) for t in range(T + 1)]
                    elif var == "sinh":
                        cont = [(np.exp(-0.4 * t) - np.exp(-0.4 * (T - t))) * (1.0 + 0.01 * fl * (1 + 0.05 * t)) for t in range(T + 1)]
                    else:
                        cont = [np.exp(-0.4 * t) * (1.0 + 0.01 * fl * (1 + 0.05 * t)) for t in range(T)]
                    if rr.random() < 0.4:
                        cont[rr.randrange(1, len(cont) - 1)] = None
                    c = pe.Corr(cont)
                    res = c.m_eff(var).content
                else:
                    mats = []
                    for t in range(6):
                        e0, e1 = np.exp(-0.3 * t), np.exp(-0.8 * t)
                        mats.append(np.array([[(e0 + 0.25 * e1) * (1 + 0.01 * fl), (0.5 * e1 - 0.5 * e0) * (1 + 0.01 * fl)], [(0.5 * e1 - 0.5 * e0) * (1 + 0.01 * fl), (0.25 * e0 + e1) * (1 + 0.01 * fl)]], dtype=object))
                    c = pe.Corr(mats)
                    res = c.Eigenvalue(t0=1, ts=rr.choice([None, 3]), state=rr.choice([0, 1])).content
            else:
                if o1.cov_names or o2.cov_names:
                    pass
                from pyerrors.linalg import derived_observable as derived_array
                M = np.array([[o1 + 5.0, o2 * 0.1], [o2 * 0.1, o3 + 7.0]], dtype=object)
                res = derived_array(lambda x, **kw: x @ x.T if rr else x, [M])
        except Exception as e:
            ctx.probe("producer_raised_" + f + "_" + type(e).__name__)
            return []
        ctx.sig("producer", f, disc)
        flat = []

        def walk2(x):
            if isinstance(x, (pe.Obs, pe.CObs)):
                flat.append(x)
            elif isinstance(x, (list, tuple, np.ndarray)):
                for e in (x.ravel() if isinstance(x, np.ndarray) else x):
                    walk2(e)
        walk2(res)
        if not flat:
            ctx.probe("producer_no_obs_" + f)
        for r_ in flat:
            check(ctx, r_, "producer." + f, disc)
        return [x for x in flat[:1] if isinstance(x, pe.Obs) and np.isfinite(x.value)]
    if kind == "construct_fuzz":
        # arbitrary constructor arguments; an independent predicate (transcribed from the statement) says whether the
        # request is well-formed: well-formed -> must construct a well-formed Obs, malformed -> must raise
        rr = random.Random(kernel.H("fuzz", op["seed"]))
        R = rr.choice([1, 1, 2, 3])
        ens = rr.choice(["A", "B2"])
        names = ["%s|r%d" % (ens, k) for k in rr.sample(range(12), R)]
        lens = [rr.randint(5, 12) for _ in range(R)]
        idls = []
        for n_ in lens:
            first = rr.randint(0, 20)
            kind_ = rr.choice(["range", "range", "list", "array", "irregular"])
            step = rr.choice([1, 1, 2, 5])
            if kind_ == "range":
                idls.append(range(first, first + n_ * step, step))
            elif kind_ == "irregular":
                idls.append(sorted(rr.sample(range(first, first + 4 * n_), n_)))
            else:
                lst = list(range(first, first + n_ * step, step))
                idls.append(lst if kind_ == "list" else np.array(lst))
        use_idl = rr.random() < 0.8
        valid = True
        mut = rr.choice(["none", "none", "neg_range", "reverse_list", "swap", "dup", "short_sample", "len_idl", "len_names", "dup_name", "other_ens", "nonstr", "short_chain",
                         "neg_first", "bool_name"])
        k = rr.randrange(R)
        if mut == "neg_range" and use_idl:
            n_ = lens[k]
            idls[k] = range(30 + n_, 30, -1)
            valid = False
        elif mut == "reverse_list" and use_idl:
            idls[k] = list(idls[k])[::-1] if rr.random() < 0.5 else np.array(list(idls[k])[::-1])
            valid = False
        elif mut == "swap" and use_idl:
            l_ = list(idls[k])
            j_ = rr.randrange(len(l_) - 1)
            l_[j_], l_[j_ + 1] = l_[j_ + 1], l_[j_]
            idls[k] = l_
            valid = False
        elif mut == "dup" and use_idl:
            l_ = list(idls[k])
            j_ = rr.randrange(len(l_) - 1)
            l_[j_ + 1] = l_[j_]
            idls[k] = l_ if rr.random() < 0.5 else np.array(l_)
            valid = False
        elif mut == "short_sample" and use_idl:
            lens[k] = lens[k] - 1 if lens[k] > 5 else lens[k] + 1
            valid = False
        elif mut == "len_idl" and use_idl and R > 1:
            idls = idls[:-1]
            valid = False
        elif mut == "len_names" and R > 1:
            names = names[:-1]
            valid = False
        elif mut == "dup_name" and R > 1:
            names[k] = names[(k + 1) % R]
            valid = False
        elif mut == "other_ens" and R > 1:
            names[k] = rr.choice(["Zq|r1", ens + "x|r1", ens[:1] + "|r77" if len(ens) > 1 else "Q|r1"])
            valid = False
        elif mut == "nonstr":
            names[k] = rr.choice([3, None, 2.5, ("a",)])
            valid = False
        elif mut == "short_chain":
            lens[k] = rr.randint(0, 4)
            if use_idl:
                idls[k] = range(1, 1 + lens[k])
            valid = False
        elif mut == "neg_first" and use_idl and isinstance(idls[k], range):
            idls[k] = range(-3, -3 + len(idls[k]) * idls[k].step, idls[k].step)      # negative configuration numbers are integers all the same
        elif mut == "bool_name":
            names[k] = True
            valid = False
        samples = [np.array([rr.gauss(0, 1) for _ in range(n_)]) for n_ in lens]
        try:
            o = pe.Obs(samples, names, idl=idls) if use_idl else pe.Obs(samples, names)
            raised = None
        except Exception as e:
            raised = e
        ctx.compared += 1
        ctx.sig("construct_fuzz", mut if not valid else "valid", "idl" if use_idl else "noidl")
        if valid:
            if raised is not None:
                ctx.violation("c04.no_result", "construct", "fuzz_valid", "well-formed construction request raised %s: %s" % (type(raised).__name__, str(raised)[:100]))
                return []
            check(ctx, o, "construct", "fuzz")
            ctx.probe("fuzz_valid_constructed")
            return [o]
        if raised is None:
            ctx.violation("c04.malformed_accepted", "construct", "fuzz_" + mut, "malformed construction request (%s) was accepted: names=%r idl=%r lengths=%r" % (
                mut, names, [repr(i)[:40] for i in idls] if use_idl else None, lens))
        else:
            ctx.probe("malformed_rejected")
        return []
    if kind == "interrupt":
        f = op["f"]
        x, y = obs_only(a, pe), obs_only(b, pe)
        fn = {"add": lambda: x + y, "mul": lambda: x * y, "div": lambda: x / (y + 10.0), "exp": lambda: np.exp(x * 1e-3), "gm": lambda: x.gamma_method(),
              "json": lambda: pe.input.json.create_json_string([x, y])}[f]
        dx, dy = objs.data_digest(x), objs.data_digest(y)
        st, v, n = objs.run_interruptible(fn, None)
        if st != "done" or n < 2:
            return []
        k = 1 + int(op["frac"] * (n - 1))
        st, v, _ = objs.run_interruptible(fn, k)
        ctx.fault("interrupt_at_line")
        ctx.compared += 1
        if objs.data_digest(x) != dx or objs.data_digest(y) != dy:
            ctx.violation("c04.operand_damaged", "interrupt." + f, "data", "operand data changed by an interrupted %s (line event %d of %d)" % (f, k, n))
        ctx.sig("interrupt", f, st)
        return []
    if kind == "gm":
        try:
            a.gamma_method()
        except Exception:
            ctx.probe("gm_raised")
        return []
    return []
