"""C14 - correlator arithmetic acts timeslice-wise, propagates undefined slices, mutates nothing (world C).

A session holds pools of correlators and of argument objects (observables, numbers, matrices, vectors, lists);
every operation draws its operands/arguments from the pools (so they are shared, aliased and reused), the result is
compared entry by entry with a reference model transcribed from the statement (Obs-level arithmetic is the trusted
base), and SHA-1 snapshots of *all* pool objects taken before the call must be unchanged after it.
"""
import math
import random

import numpy as np

from .. import kernel
from ..world_session import objs

PROP = "c14"

FUNCS = ["sqrt", "log", "exp", "sin", "cos", "tan", "sinh", "cosh", "tanh", "arcsin", "arccos", "arctan", "arcsinh", "arccosh", "arctanh"]
BIN = ["add", "sub", "mul", "div", "pow"]
NUMS = [2, -1, 3, 0.5, -1.5, 2.0, 1 + 2j, -0.5j, 0]


def gen_corr_spec(rng):
    T = rng.randint(2, 10) if rng.random() < 0.8 else rng.randint(11, 16)
    N = rng.choice([1, 1, 1, 2, 2, 3])
    kind = rng.choice(["real", "real", "real", "complex"]) if N == 1 else rng.choice(["real", "real", "real", "complex"])
    nnone = rng.choice([0, 0, 1, 2, T // 2])
    pad = [rng.choice([0, 0, 1, 2]), rng.choice([0, 0, 1])]
    inner = max(1, T - pad[0] - pad[1])
    return {"T": inner, "N": N, "kind": kind, "none": sorted(rng.sample(range(inner), min(nnone, inner - 1))), "pad": pad,
            "seed": rng.getrandbits(32), "range": rng.choice(["pos", "mixed", "mixed", "unit"]),
            "sym": rng.choice([False, False, False, True, "first", "last", "not_first"])}     # which timeslices hold symmetric matrices


def gen_plan(rng, tier):
    ncorr = rng.randint(2, 5)
    plan = {"corrs": [gen_corr_spec(rng) for _ in range(ncorr)], "seed": rng.getrandbits(32), "ops": []}
    # make partners with equal T likely
    for c in plan["corrs"][1:]:
        if rng.random() < 0.6:
            c["T"], c["pad"] = plan["corrs"][0]["T"], list(plan["corrs"][0]["pad"])
            c["none"] = [x for x in c["none"] if x < c["T"]]
            if rng.random() < 0.6:
                c["N"] = plan["corrs"][0]["N"]
    for _ in range(rng.randint(10, 40)):
        r = rng.random()
        op = {"i": rng.randrange(64), "dst": rng.randrange(64), "twice": rng.random() < 0.25}
        if r < 0.30:
            op.update({"op": "bin", "f": rng.choice(BIN), "partner": rng.choice(["corr", "corr", "obs", "cobs", "num", "num"]), "j": rng.randrange(64),
                       "order": rng.choice(["LR", "LR", "RL"])})
        elif r < 0.42:
            op.update({"op": "func", "f": rng.choice(FUNCS + ["neg", "abs", "real", "imag"])})
        elif r < 0.50:
            op.update({"op": "roll", "dt": rng.randint(-20, 20)})
        elif r < 0.54:
            op.update({"op": "reverse"})
        elif r < 0.60:
            op.update({"op": "thin", "spacing": rng.randint(1, 5), "offset": rng.randint(0, 6)})
        elif r < 0.65:
            op.update({"op": rng.choice(["symmetric", "anti_symmetric"])})
        elif r < 0.69:
            op.update({"op": "T_symmetry", "j": rng.randrange(64), "parity": rng.choice([1, -1])})
        elif r < 0.73:
            op.update({"op": "item", "a": rng.randrange(3), "b": rng.randrange(3)})
        elif r < 0.80:
            op.update({"op": "projected", "mode": rng.choice(["default", "one", "two", "list", "list_one"]), "normalize": rng.random() < 0.5,
                       "v": rng.randrange(64), "w": rng.randrange(64)})
        elif r < 0.83:
            op.update({"op": rng.choice(["trace", "matrix_symmetric"])})
        elif r < 0.87:
            op.update({"op": "Hankel", "n": rng.randint(2, 4), "periodic": rng.random() < 0.5})
        elif r < 0.91:
            op.update({"op": "matmul", "partner": rng.choice(["matrix", "corr"]), "order": rng.choice(["LR", "RL"]), "j": rng.randrange(64), "m": rng.randrange(64)})
        elif r < 0.94:
            op.update({"op": rng.choice(["correlate", "reweight"]), "partner": rng.choice(["obs", "corr"]), "j": rng.randrange(64), "all_configs": rng.random() < 0.5})
        elif r < 0.955:
            op.update({"op": rng.choice(["deriv", "second_deriv"]), "variant": rng.randrange(4)})
        elif r < 0.975:
            op.update({"op": "repr", "pr": rng.randrange(64), "how": rng.choice(["repr", "print", "str"])})
        elif r < 0.987:
            op.update({"op": rng.choice(["set_prange", "gamma_method"]), "pr": rng.randrange(64)})
        else:
            op.update({"op": "interrupt", "f": rng.choice(["add", "mul", "neg", "roll", "symmetric", "sin"]), "j": rng.randrange(64), "frac": round(rng.random(), 4)})
        plan["ops"].append(op)
    return plan


# ------------------------------------------------------------------------------------ construction

def make_obs(rnd, mean, n=6):
    import pyerrors as pe
    return pe.Obs([np.array([mean + 0.05 * rnd.gauss(0, 1) for _ in range(n)])], ["E|r1"])


def mean_for(rnd, rng_kind):
    if rng_kind == "pos":
        return rnd.uniform(0.3, 3.0)
    if rng_kind == "unit":
        return rnd.uniform(-0.95, 0.95)
    return rnd.choice([-1, 1]) * rnd.uniform(0.2, 2.5)


def build_corr(spec):
    import pyerrors as pe
    rnd = random.Random(kernel.H("corr", spec["seed"]))
    N, T = spec["N"], spec["T"]
    content = []
    defined = [t for t in range(T) if t not in spec["none"]]
    for t in range(T):
        if t in spec["none"]:
            content.append(None)
            continue
        symt = spec["sym"] is True or (spec["sym"] == "first" and defined and t == defined[0]) or (spec["sym"] == "last" and defined and t == defined[-1]) \
            or (spec["sym"] == "not_first" and defined and t != defined[0])

        def ent():
            if spec["kind"] == "complex":
                return pe.CObs(make_obs(rnd, mean_for(rnd, spec["range"])), make_obs(rnd, mean_for(rnd, spec["range"])))
            return make_obs(rnd, mean_for(rnd, spec["range"]))
        if N == 1:
            content.append(ent())
        else:
            a = np.empty((N, N), dtype=object)
            for i in range(N):
                for j in range(N):
                    if symt and j < i:
                        a[i, j] = a[j, i]
                    else:
                        a[i, j] = ent()
            content.append(a)
    if all(c is None for c in content):
        if N == 1:
            content[0] = make_obs(rnd, 1.0)
        else:
            a = np.empty((N, N), dtype=object)
            for i in range(N):
                for j in range(N):
                    a[i, j] = make_obs(rnd, 1.0 + i + j)
            content[0] = a
    return pe.Corr(content, padding=list(spec["pad"]))


# ------------------------------------------------------------------------------------ snapshots

def odigest(x):
    import pyerrors as pe
    if x is None:
        return "N"
    if isinstance(x, pe.Obs):
        return objs.data_digest(x)
    if isinstance(x, pe.CObs):
        return "C(" + odigest(x.real) + "," + odigest(x.imag) + ")"
    if isinstance(x, pe.Corr):
        return "K%d/%d[" % (x.T, x.N) + ",".join(odigest(c) for c in x.content) + "]" + repr(x.prange) + repr(x.tag)
    if isinstance(x, np.ndarray):
        if x.dtype == object:
            return "A%s[" % (x.shape,) + ",".join(odigest(e) for e in x.ravel()) + "]"
        return kernel.digest(x)
    if isinstance(x, (list, tuple)):
        return "L[" + ",".join(odigest(e) for e in x) + "]"
    return kernel.digest(x)


def snapshot(state):
    return {k: [odigest(x) for x in v] for k, v in state.items()}


# ------------------------------------------------------------------------------------ model

class Skip(Exception):
    pass


def undefined(c, N):
    if c is None:
        return True
    a = np.asarray(c, dtype=object).ravel()
    return len(a) < N * N or any(e is None for e in a)


def is_nan_entry(e):
    import pyerrors as pe
    if isinstance(e, pe.Obs):
        return bool(np.isnan(e.value))
    if isinstance(e, pe.CObs):
        return is_nan_entry(e.real) or is_nan_entry(e.imag)
    try:
        return bool(np.isnan(e))
    except TypeError:
        return False


def nan_to_none(arr):
    import pyerrors as pe
    ents = list(np.asarray(arr, dtype=object).ravel())
    if any(isinstance(e, pe.CObs) and is_nan_entry(e) for e in ents):
        raise Skip()        # not-a-number inside a complex entry: outside what the statement speaks about (DESIGN C14)
    return None if any(is_nan_entry(e) for e in ents) else arr


def ew(f, a, b=None):
    """apply f entry-wise to object arrays (same shape, or b of shape (1,), or b scalar)"""
    a = np.asarray(a, dtype=object)
    out = np.empty(a.shape, dtype=object)
    for idx in np.ndindex(a.shape):
        if b is None:
            out[idx] = f(a[idx])
        elif isinstance(b, np.ndarray):
            out[idx] = f(a[idx], b[idx] if b.shape == a.shape else b.ravel()[0])
        else:
            out[idx] = f(a[idx], b)
    return out


PYOPS = {"add": lambda x, y: x + y, "sub": lambda x, y: x - y, "mul": lambda x, y: x * y, "div": lambda x, y: x / y, "pow": lambda x, y: x ** y}


def model_bin(f, A, NA, B, order):
    """A: content list of the correlator; B: content list (Corr partner, with its N as B[0]) or scalar partner."""
    fn = PYOPS[f]
    out = []
    for t in range(len(A)):
        a = A[t]
        if undefined(a, NA):
            out.append(None)
            continue
        if isinstance(B, tuple):
            NB, Bc = B
            b = Bc[t]
            if undefined(b, NB):
                out.append(None)
                continue
            a_, b_ = np.asarray(a, dtype=object), np.asarray(b, dtype=object)
            if a_.shape != b_.shape:
                # N=1 partner broadcasts
                if a_.size == 1:
                    res = ew((lambda y, x: fn(x, y)) if order == "LR" else (lambda y, x: fn(y, x)), b_, a_.ravel()[0])
                else:
                    res = ew(fn if order == "LR" else (lambda x, y: fn(y, x)), a_, b_.ravel()[0])
            else:
                res = ew(fn if order == "LR" else (lambda x, y: fn(y, x)), a_, b_)
        else:
            res = ew(fn if order == "LR" else (lambda x, y: fn(y, x)), a, B)
        out.append(nan_to_none(res))
    return out


def entry_diff(e, g, tol=1e-12, atol=0.0):
    import pyerrors as pe
    if isinstance(e, pe.CObs) or isinstance(g, pe.CObs):
        if not (isinstance(e, pe.CObs) and isinstance(g, pe.CObs)):
            # a CObs with vanishing imaginary part is not the same object kind as an Obs
            return "kind %s vs %s" % (type(e).__name__, type(g).__name__)
        return entry_diff(e.real, g.real, tol, atol) or entry_diff(e.imag, g.imag, tol, atol)
    if isinstance(e, pe.Obs) != isinstance(g, pe.Obs):
        if isinstance(e, pe.Obs) and not e.names and not isinstance(g, pe.Obs):
            return None
        return "kind %s vs %s" % (type(e).__name__, type(g).__name__)
    if not isinstance(e, pe.Obs):
        ok = (e == g) or abs(e - g) <= tol * max(1.0, abs(e))
        return None if ok else "%r vs %r" % (e, g)
    if e.names != g.names:
        return "names %r vs %r" % (e.names, g.names)
    fin = [float(np.max(np.abs(d[np.isfinite(d)]))) for d in e.deltas.values() if np.any(np.isfinite(d))]
    sc = (abs(e.value) if np.isfinite(e.value) else 0.0) + 1e-300 + max(fin + [0.0])
    if not (e.value == g.value or (np.isnan(e.value) and np.isnan(g.value)) or abs(e.value - g.value) <= tol * sc + atol):
        return "value %.17g vs %.17g" % (e.value, g.value)
    for n in e.deltas:
        if list(e.idl[n]) != list(g.idl.get(n, [])):
            return "idl[%s]" % n
        x, y = np.asarray(e.deltas[n]), np.asarray(g.deltas[n])
        same = (x == y) | (np.isnan(x) & np.isnan(y))
        with np.errstate(invalid="ignore"):
            close = np.abs(x - y) <= tol * sc + atol
        if not np.all(same | close):
            return "deltas[%s] differ" % n
    if e.reweighted != g.reweighted:
        return "reweighted %r vs %r" % (e.reweighted, g.reweighted)
    return None


def content_diff(exp, got_corr, N, ctx, atol=0.0):
    """exp: list of None|array; got: Corr"""
    if got_corr.T != len(exp):
        return ("shape", "T=%d, expected %d" % (got_corr.T, len(exp)))
    if got_corr.N != N:
        return ("shape", "N=%d, expected %d" % (got_corr.N, N))
    for t in range(len(exp)):
        e, g = exp[t], got_corr.content[t]
        eu, gu = undefined(e, N), undefined(g, N)
        if eu != gu:
            if not gu and any(is_nan_entry(x) for x in np.asarray(g, dtype=object).ravel()):
                return ("nan_not_undefined", "timeslice %d holds a NaN-valued entry instead of being undefined" % t)
            return ("undefined_pattern", "timeslice %d is %s, expected %s" % (t, "undefined" if gu else "defined", "undefined" if eu else "defined"))
        if eu:
            continue
        ea, ga = np.asarray(e, dtype=object).ravel(), np.asarray(g, dtype=object).ravel()
        for k in range(len(ea)):
            d = entry_diff(ea[k], ga[k], atol=atol)
            ctx.compared += 1
            if d:
                return ("entry", "timeslice %d entry %d: %s" % (t, k, d))
    return None


# ------------------------------------------------------------------------------------ execution

def execute(plan, ctx):
    import pyerrors as pe
    import warnings
    warnings.simplefilter("ignore")
    rnd = random.Random(kernel.H("c14", plan["seed"]))
    corrs = [build_corr(s) for s in plan["corrs"]]
    obs_pool = [make_obs(rnd, m) for m in (1.3, -0.7, 2.0)]
    w = make_obs(rnd, 1.0, n=8)          # the weight lives on a strict superset of the correlators' configurations
    state = {
        "corrs": corrs,
        "obs": obs_pool,
        "cobs": [pe.CObs(make_obs(rnd, 0.8), make_obs(rnd, -1.2)), pe.CObs(make_obs(rnd, 2.0), 0.0)],
        "nums": list(NUMS),
        "weight": [w],
        "matrices": [np.array([[1.0, 0.5], [-0.25, 2.0]]), np.array([[0.0, 1.0], [1.0, 0.0]]), np.array([[1.0, 0.0, 2.0], [0.5, 1.0, 0.0], [0.0, -1.0, 1.0]]), np.array([[2.0]])],
        "vectors": [np.array([1.0, 2.0]), np.array([0.6, -0.8]), np.array([1.0, 0.0, -2.0]), np.array([0.0, 3.0, 4.0]),
                    np.array([1.0 + 1.0j, 2.0 - 0.5j]), np.array([0.5j, 1.0, -2.0 + 1.0j]), np.array([3, -4]), np.array([1, 2, 2])],
        "vlists": [],
        "pranges": [[0, 3], [1, None], [2, 2], [0, 0], [1, 5]],
        "default_padding": [pe.Corr.__init__.__defaults__[0]],
    }
    for oi, op in enumerate(plan["ops"]):
        ctx.step = oi
        corrs = state["corrs"]
        i = op["i"] % len(corrs)
        C = corrs[i]
        before = snapshot(state)
        kind = op["op"]
        label = kind + ("." + op["f"] if "f" in op else "")
        try:
            out = run_op(ctx, op, C, state, pe)
        except Skip:
            continue
        ctx.log("session", label, i, None if out is None else out[0])
        after = snapshot(state)
        after = {k: v[:len(before[k])] for k, v in after.items()}
        if after != before:
            which = [k for k in before if before[k] != after[k]]
            pos = [(k, n) for k in which for n in range(len(before[k])) if before[k][n] != after[k][n]]
            ctx.violation("c14.mutation", label, "%s" % which[0], "operand/argument objects changed by the call: %r" % (pos[:3],))
            # repair the pools so that later steps are judged on their own
            state["pranges"] = [[0, 3], [1, None], [2, 2], [0, 0], [1, 5]]
        ctx.compared += 1
        if out is None:
            continue
        status, res, exp, N = out
        content_kind = "cplx" if any(isinstance(e, pe.CObs) for c in C.content if c is not None for e in np.asarray(c, dtype=object).ravel()) else "real"
        ctx.sig(label, op.get("partner", "-"), op.get("order", "-"), "N%d" % C.N, content_kind, "none" if any(c is None for c in C.content) else "full", status)
        if status == "ok" and isinstance(res, pe.Corr) and all(not is_bad(c) for c in res.content):
            dst = op["dst"] % len(corrs)
            if len(corrs) < 6 and dst % 2 == 0:
                corrs.append(res)
            else:
                corrs[dst] = res


def is_bad(c):
    import pyerrors as pe
    if c is None:
        return False
    for e in np.asarray(c, dtype=object).ravel():
        if not isinstance(e, (pe.Obs, pe.CObs)):
            return True         # plain numbers as correlator entries (imag of a CObs with numeric part): not reused as operands
        parts = [e.real, e.imag] if isinstance(e, pe.CObs) else [e]
        for p in parts:
            if isinstance(p, pe.Obs):
                if not np.isfinite(p.value) or abs(p.value) > 1e8 or any(not np.all(np.isfinite(d)) or np.max(np.abs(d)) > 1e8 for d in p.deltas.values() if len(d)):
                    return True
    return False


def pathological(exp):
    """model result with infinite values, NaN fluctuations behind a finite value, or NaN inside a complex entry:
    the statement only speaks about 'not a number' results of real quantities; such histories are not judged."""
    import pyerrors as pe
    for c in exp:
        if c is None:
            continue
        for e in np.asarray(c, dtype=object).ravel():
            if isinstance(e, pe.CObs):
                if is_nan_entry(e):
                    return True
                parts = [e.real, e.imag]
            else:
                parts = [e]
            for p in parts:
                if isinstance(p, pe.Obs):
                    if np.isinf(p.value):
                        return True
                    if not np.isnan(p.value) and any(not np.all(np.isfinite(d)) for d in p.deltas.values()):
                        return True
                    if not np.isnan(p.value) and any(not np.all(np.isfinite(cv.grad)) for cv in p.covobs.values()):
                        return True
    return False


def opscale(C, factor=1.0):
    """magnitude of the terms an operation sums (cancellations make the result small but not its rounding error)"""
    import pyerrors as pe
    m = 0.0
    for c in C.content:
        if c is None:
            continue
        for e in np.asarray(c, dtype=object).ravel():
            for p in ([e.real, e.imag] if isinstance(e, pe.CObs) else [e]):
                if isinstance(p, pe.Obs) and np.isfinite(p.value):
                    m = max(m, abs(p.value) + max([float(np.max(np.abs(d))) for d in p.deltas.values() if len(d)] + [0.0]))
    return 1e-12 * m * factor


def judge(ctx, label, disc, call, model, N, twice=False, accept_exc_if_model_raises=True, index_transform=False, atol=0.0):
    """call() -> Corr (implementation); model() -> content list.  Returns (status, result, expected, N) or None."""
    import pyerrors as pe
    try:
        exp = model()
        mexc = None
    except Skip:
        ctx.probe("nonfinite_history_not_judged")
        raise
    except Exception as e:
        exp, mexc = None, e
    if exp is not None and pathological(exp):
        ctx.probe("nonfinite_history_not_judged")
        raise Skip()
    try:
        res = call()
        iexc = None
    except Exception as e:
        res, iexc = None, e
    if mexc is not None and iexc is not None:
        ctx.probe("both_raise")
        return ("both_raise", None, None, N)
    if iexc is not None:
        if index_transform == "lenient":
            ctx.probe("index_transform_raised_on_undefined")
            return ("raised", None, None, N)
        if all(undefined(c, N) for c in exp):
            ctx.probe("all_undefined_rejected")
            return ("all_undefined", None, None, N)
        ctx.violation("c14.no_result", label, disc, "raised %s: %s (the timeslice-wise model yields a result)" % (type(iexc).__name__, str(iexc)[:140]))
        return ("exc", None, None, N)
    if mexc is not None:
        ctx.probe("model_raises_impl_returns")
        return ("model_raised", res, None, N)
    if not isinstance(res, pe.Corr):
        ctx.violation("c14.result_type", label, disc, "returned %s instead of a correlator" % type(res).__name__)
        return ("badtype", None, None, N)
    for t, c in enumerate(res.content):
        if c is not None:
            a = np.asarray(c, dtype=object)
            if a.shape not in ((1,), (N, N)) or not all(isinstance(e, (pe.Obs, pe.CObs, int, float, np.floating, np.integer)) for e in a.ravel()):
                ctx.violation("c14.shape", label, disc, "timeslice %d of the result has shape %r holding %s" % (t, a.shape, sorted(set(type(e).__name__ for e in a.ravel()))))
                return ("diff", None, exp, N)
    d = content_diff(exp, res, N, ctx, atol)
    if d:
        ctx.violation("c14." + d[0], label, disc, d[1])
        return ("diff", res, exp, N)
    if twice:
        try:
            res2 = call()
            d2 = content_diff([c for c in res.content], res2, N, ctx, atol)
        except Exception as e:
            d2 = ("entry", "second invocation raised %s" % type(e).__name__)
        if d2:
            ctx.violation("c14.repeat", label, disc, "repeated invocation with the same argument objects gave a different result: %s" % d2[1])
    return ("ok", res, exp, N)


def partner_of(op, state):
    k = op["partner"]
    if k == "corr":
        return "corr", state["corrs"][op["j"] % len(state["corrs"])]
    if k == "obs":
        return "obs", state["obs"][op["j"] % len(state["obs"])]
    if k == "cobs":
        return "cobs", state["cobs"][op["j"] % len(state["cobs"])]
    n = state["nums"][op["j"] % len(state["nums"])]
    return type(n).__name__, n


def run_op(ctx, op, C, state, pe):
    kind = op["op"]
    N, T = C.N, C.T
    A = C.content
    tw = op.get("twice", False)
    if kind == "bin":
        pk, P = partner_of(op, state)
        f, order = op["f"], op["order"]
        disc = "%s/%s/%s" % (pk, order, content_kind_of(C, pe))
        ck = "cplx" if (content_kind_of(C, pe) == "cplx" or (isinstance(P, pe.Corr) and content_kind_of(P, pe) == "cplx")) else "real"
        disc = "%s/%s/%s" % (pk, order, ck)
        if ck == "cplx":
            # supported subset for complex content: + - * with the correlator (or a real quantity) as left operand; division by real Obs / numbers
            if f == "pow" or (f == "div" and (order == "RL" or pk in ("corr", "cobs", "complex"))):
                raise Skip()
            if order == "RL" and pk in ("cobs", "complex"):
                raise Skip()
        if f == "pow" and (order == "RL" or pk in ("corr", "cobs", "complex")):
            raise Skip()        # explicit TypeError('Type of exponent not supported') / no __rpow__: outside the supported set (DESIGN C14)
        if isinstance(P, pe.Corr):
            if P.T != T or not (P.N == N or ((P.N == 1 or N == 1) and f in ("mul", "div"))):
                raise Skip()
            B = (P.N, P.content)
            NR = max(N, P.N)
        else:
            B = P
            NR = N
        fn = PYOPS[f]
        call = (lambda: fn(C, P)) if order == "LR" else (lambda: fn(P, C))
        if isinstance(P, pe.Corr) and order == "RL":
            # P op C with both correlators: the model treats P as the left correlator
            return judge(ctx, "bin." + f, disc, call, lambda: model_bin(f, P.content, P.N, (N, A), "LR"), NR, tw)
        return judge(ctx, "bin." + f, disc, call, lambda: model_bin(f, A, N, B, order), NR, tw)
    if kind == "func":
        f = op["f"]
        disc = content_kind_of(C, pe)
        if f == "neg":
            return judge(ctx, "func.neg", disc, lambda: -C, lambda: [None if undefined(a, N) else nan_to_none(ew(lambda x: -x, a)) for a in A], N, tw)
        if f == "abs":
            return judge(ctx, "func.abs", disc, lambda: abs(C), lambda: [None if undefined(a, N) else nan_to_none(ew(lambda x: abs(x), a)) for a in A], N, tw)
        if f == "real":
            return judge(ctx, "func.real", disc, lambda: C.real, lambda: [None if undefined(a, N) else ew(lambda x: x.real if isinstance(x, pe.CObs) else x, a) for a in A], N, tw)
        if f == "imag":
            return judge(ctx, "func.imag", disc, lambda: C.imag, lambda: [None if undefined(a, N) else ew(lambda x: x.imag if isinstance(x, pe.CObs) else x * 0, a) for a in A], N, tw)
        npf = getattr(np, f)
        return judge(ctx, "func." + f, disc, lambda: getattr(np, f)(C) if op["i"] % 2 else getattr(C, f)(),
                     lambda: [None if undefined(a, N) else nan_to_none(ew(lambda x: npf(x), a)) for a in A], N, tw)
    if kind == "roll":
        dt = op["dt"]
        return judge(ctx, "roll", "dt", lambda: C.roll(dt), lambda: [A[(t - dt) % T] for t in range(T)], N, tw, index_transform=True)
    if kind in ("deriv", "second_deriv"):
        # finite differences as documented: linear combinations of neighbouring timeslices, undefined where one of the
        # timeslices entering the stencil is undefined (and at the border the stencil does not fit into)
        if N != 1 or content_kind_of(C, pe) == "cplx":
            raise Skip()
        if kind == "deriv":
            var = ["symmetric", "forward", "backward", "improved"][op["variant"] % 4]
            sten = {"symmetric": {-1: -0.5, 1: 0.5}, "forward": {0: -1.0, 1: 1.0}, "backward": {-1: -1.0, 0: 1.0},
                    "improved": {-2: 1 / 12, -1: -8 / 12, 1: 8 / 12, 2: -1 / 12}}[var]
        else:
            var = ["symmetric", "big_symmetric", "improved", "symmetric"][op["variant"] % 4]
            sten = {"symmetric": {-1: 1.0, 0: -2.0, 1: 1.0}, "big_symmetric": {-2: 0.25, 0: -0.5, 2: 0.25},
                    "improved": {-2: -1 / 12, -1: 16 / 12, 0: -30 / 12, 1: 16 / 12, 2: -1 / 12}}[var]

        def model():
            out = []
            for t in range(T):
                if any(not (0 <= t + k < T) or undefined(A[t + k], 1) for k in sten):
                    out.append(None)
                    continue
                acc = None
                for k in sorted(sten):
                    term = ew(lambda x: sten[k] * x, A[t + k])
                    acc = term if acc is None else ew(lambda x, y: x + y, acc, term)
                out.append(acc)
            return out
        return judge(ctx, kind, var, lambda: getattr(C, kind)(var), model, 1, tw, index_transform=True, atol=opscale(C, 8.0))
    if kind == "reverse":
        return judge(ctx, "reverse", "-", lambda: C.reverse(), lambda: [A[T - 1 - t] for t in range(T)], N, tw, index_transform=True)
    if kind == "thin":
        sp, off = op["spacing"], op["offset"]
        return judge(ctx, "thin", "-", lambda: C.thin(sp, off), lambda: [A[t] if (off + t) % sp == 0 else None for t in range(T)], N, tw, index_transform=True)
    if kind in ("symmetric", "anti_symmetric"):
        if N != 1 or T % 2 or content_kind_of(C, pe) == "cplx":
            raise Skip()
        sgn = 1 if kind == "symmetric" else -1

        def model():
            out = [A[0]]
            for t in range(1, T):
                out.append(None if (undefined(A[t], 1) or undefined(A[T - t], 1)) else ew(lambda x, y: 0.5 * (x + sgn * y), A[t], A[T - t]))
            return out
        if kind == "anti_symmetric" and content_kind_of(C, pe) == "cplx":
            raise Skip()
        return judge(ctx, kind, "-", lambda: getattr(C, kind)(), model, 1, tw, index_transform=True)
    if kind == "T_symmetry":
        P = state["corrs"][op["j"] % len(state["corrs"])]
        if N != 1 or P.N != 1 or P.T != T or content_kind_of(C, pe) == "cplx" or content_kind_of(P, pe) == "cplx":
            raise Skip()
        par = op["parity"]
        B = P.content

        def model():
            out = []
            for t in range(T):
                b = B[T - 1 - t]
                out.append(None if (undefined(A[t], 1) or undefined(b, 1)) else ew(lambda x, y: (x + par * y) / 2, A[t], b))
            return out
        return judge(ctx, "T_symmetry", "-", lambda: C.T_symmetry(P, par), model, 1, tw, index_transform=True)
    if kind == "item":
        if N == 1:
            raise Skip()
        a_, b_ = op["a"] % N, op["b"] % N
        return judge(ctx, "item", "-", lambda: C.item(a_, b_), lambda: [None if a is None else np.asarray([a[a_, b_]]) for a in A], 1, tw, index_transform=True)
    if kind == "trace":
        if N == 1:
            raise Skip()
        return judge(ctx, "trace", "-", lambda: C.trace(), lambda: [None if undefined(a, N) else np.asarray([sum_entries([a[k, k] for k in range(N)])]) for a in A], 1, tw, index_transform=True, atol=opscale(C, N))
    if kind == "matrix_symmetric":
        if N == 1 or content_kind_of(C, pe) == "cplx":
            raise Skip()
        return judge(ctx, "matrix_symmetric", "-", lambda: C.matrix_symmetric(),
                     lambda: [None if undefined(a, N) else ew(lambda x, y: 0.5 * (x + y), a, np.asarray(a, dtype=object).T) for a in A], N, tw, index_transform=True)
    if kind == "Hankel":
        if N != 1:
            raise Skip()
        n, per = op["n"], op["periodic"]

        def model():
            out = []
            for t in range(T):
                if not per and t + 2 * (n - 1) >= T:
                    out.append(None)
                    continue
                M = np.empty((n, n), dtype=object)
                for a in range(n):
                    for b in range(n):
                        src = A[(t + a + b) % T]
                        if undefined(src, 1):
                            raise LookupError("references an undefined slice")
                        M[a, b] = src[0]
                out.append(M if n > 1 else M.reshape(1))
            return out
        return judge(ctx, "Hankel", "periodic" if per else "open", lambda: C.Hankel(n, periodic=per), model, n, tw,
                     index_transform="lenient" if any(undefined(a, 1) for a in A) else True)
    if kind == "projected":
        if N == 1 or content_kind_of(C, pe) == "cplx":
            raise Skip()
        vs = [v for v in state["vectors"] if v.shape == (N,)]
        if not vs:
            raise Skip()
        mode, norm = op["mode"], op["normalize"]
        vl = vs[op["v"] % len(vs)]
        vr = vs[op["w"] % len(vs)]

        def nrm(v):
            return v / np.sqrt(v @ v) if norm else v

        def proj(a, l_, r_):
            tot = None
            for x in range(N):
                for y in range(N):
                    term = (l_[x] * r_[y]) * a[x, y]
                    tot = term if tot is None else tot + term
            return np.asarray([tot])
        pa = opscale(C, N * N * 16.0)
        if mode == "default":
            e0 = np.asarray([1.0] + [0.0] * (N - 1))
            return judge(ctx, "projected", "default", lambda: C.projected(normalize=norm), lambda: [None if undefined(a, N) else proj(a, e0, e0) for a in A], 1, tw, index_transform=True, atol=pa)
        if mode == "one":
            return judge(ctx, "projected", "one", lambda: C.projected(vl, normalize=norm), lambda: [None if undefined(a, N) else proj(a, nrm(vl), nrm(vl)) for a in A], 1, tw, index_transform=True, atol=pa)
        if mode == "two":
            return judge(ctx, "projected", "two", lambda: C.projected(vl, vr, normalize=norm), lambda: [None if undefined(a, N) else proj(a, nrm(vl), nrm(vr)) for a in A], 1, tw, index_transform=True, atol=pa)
        # per-timeslice lists of vectors: argument objects live in the pool and are reused
        key = (N, T, op["v"] % 3)
        found = [vl_ for vl_ in state["vlists"] if len(vl_) == T and all(v is None or v.shape == (N,) for v in vl_)]
        if found and op["w"] % 2 == 0:
            lst = found[op["w"] % len(found)]
        else:
            rr = random.Random(kernel.H("vl", key, op["w"]))
            lst = [None if rr.random() < 0.15 else np.array([rr.uniform(-2, 2) for _ in range(N)]) for _ in range(T)]
            state["vlists"].append(lst)
        snap = [None if v is None else v.copy() for v in lst]
        len_ = "lenient" if (norm and any(v is None for v in lst)) else True
        if mode == "list":
            return judge(ctx, "projected", "list", lambda: C.projected(lst, normalize=norm),
                         lambda: [None if (undefined(A[t], N) or snap[t] is None) else proj(A[t], nrm(snap[t]), nrm(snap[t])) for t in range(T)], 1, tw, index_transform=len_, atol=pa)
        return judge(ctx, "projected", "list_one", lambda: C.projected(lst, vr, normalize=norm),
                     lambda: [None if (undefined(A[t], N) or snap[t] is None) else proj(A[t], nrm(snap[t]), nrm(vr)) for t in range(T)], 1, tw, index_transform=len_, atol=pa)
    if kind == "matmul":
        if N == 1 and op["partner"] == "matrix":
            ms = [m for m in state["matrices"] if m.shape == (1, 1)]
        else:
            ms = [m for m in state["matrices"] if m.shape == (N, N)]
        order = op["order"]

        def mm(x, y):
            x, y = np.asarray(x, dtype=object), np.asarray(y, dtype=object)
            n = x.shape[0]
            out = np.empty((n, n), dtype=object)
            for a in range(n):
                for b in range(n):
                    tot = None
                    for k in range(n):
                        term = x[a, k] * y[k, b]
                        tot = term if tot is None else tot + term
                    out[a, b] = tot
            return out
        if content_kind_of(C, pe) == "cplx":
            raise Skip()
        if op["partner"] == "matrix":
            if not ms or N == 1:
                raise Skip()
            M = ms[op["m"] % len(ms)]
            if order == "LR":
                return judge(ctx, "matmul", "matrix/LR", lambda: C @ M, lambda: [None if undefined(a, N) else mm(a, M) for a in A], N, tw, atol=opscale(C, N * 4.0))
            return judge(ctx, "matmul", "matrix/RL", lambda: M @ C, lambda: [None if undefined(a, N) else mm(M, a) for a in A], N, tw, atol=opscale(C, N * 4.0))
        P = state["corrs"][op["j"] % len(state["corrs"])]
        if P.N != N or P.T != T or N == 1 or content_kind_of(P, pe) == "cplx":
            raise Skip()
        return judge(ctx, "matmul", "corr", lambda: C @ P, lambda: [None if (undefined(A[t], N) or undefined(P.content[t], N)) else mm(A[t], P.content[t]) for t in range(T)], N, tw, atol=opscale(C, N) * max(1.0, opscale(P) / 1e-12))
    if kind in ("correlate", "reweight"):
        if N != 1 or content_kind_of(C, pe) == "cplx":
            raise Skip()
        if kind == "reweight":
            W = state["weight"][0]
            ac = op["all_configs"]
            return judge(ctx, "reweight", "all" if ac else "own", lambda: C.reweight(W, all_configs=ac),
                         lambda: [None if undefined(a, 1) else np.asarray(pe.reweight(W, [a[0]], all_configs=ac)) for a in A], 1, tw)
        if op["partner"] == "obs":
            P = state["obs"][op["j"] % len(state["obs"])]
            return judge(ctx, "correlate", "obs", lambda: C.correlate(P), lambda: [None if undefined(a, 1) else np.asarray([pe.correlate(a[0], P)]) for a in A], 1, tw)
        P = state["corrs"][op["j"] % len(state["corrs"])]
        if P.N != 1 or P.T != T or content_kind_of(P, pe) == "cplx":
            raise Skip()
        return judge(ctx, "correlate", "corr", lambda: C.correlate(P),
                     lambda: [None if (undefined(A[t], 1) or undefined(P.content[t], 1)) else np.asarray([pe.correlate(A[t][0], P.content[t][0])]) for t in range(T)], 1, tw)
    if kind == "repr":
        pr = state["pranges"][op["pr"] % len(state["pranges"])]
        try:
            if op["how"] == "repr":
                s1 = C.__repr__(pr)
                s2 = C.__repr__(pr)
            elif op["how"] == "print":
                C.print(pr)
                s1 = s2 = ""
            else:
                s1, s2 = str(C), str(C)
        except Exception as e:
            if content_kind_of(C, pe) == "cplx" or N != 1:
                return None
            ctx.violation("c14.no_result", "repr", op["how"], "raised %s: %s" % (type(e).__name__, str(e)[:100]))
            return None
        ctx.compared += 1
        if s1 != s2:
            ctx.violation("c14.repeat", "repr", op["how"], "repeated __repr__ with the same print_range object printed different timeslices")
        return None
    if kind == "set_prange":
        pr = state["pranges"][op["pr"] % len(state["pranges"])]
        C2 = pe.Corr(list(C.content))
        try:
            C2.set_prange(pr)
        except Exception:
            pass
        return None
    if kind == "interrupt":
        # an operation torn by an interrupt (Ctrl-C between two lines of pyerrors code) must leave every operand intact;
        # the snapshot comparison in execute() judges that
        P = state["corrs"][op["j"] % len(state["corrs"])]
        f = op["f"]
        fn = {"add": lambda: C + P, "mul": lambda: C * P, "neg": lambda: -C, "roll": lambda: C.roll(1), "symmetric": lambda: C.symmetric(), "sin": lambda: np.sin(C)}[f]
        st, v, n = objs.run_interruptible(fn, None)
        if st != "done" or n < 2:
            raise Skip()
        k = 1 + int(op["frac"] * (n - 1))
        st, v, _ = objs.run_interruptible(fn, k)
        if st == "interrupted":
            ctx.fault("interrupt_at_line")
        return None
    if kind == "gamma_method":
        try:
            C.gamma_method()
        except Exception as e:
            ctx.violation("c14.no_result", "gamma_method", "-", "raised %s" % type(e).__name__)
        return None
    raise Skip()


def sum_entries(xs):
    tot = None
    for x in xs:
        tot = x if tot is None else tot + x
    return tot


def content_kind_of(C, pe):
    for c in C.content:
        if c is not None:
            for e in np.asarray(c, dtype=object).ravel():
                if isinstance(e, pe.CObs):
                    return "cplx"
    return "real"
