"""argument shrinking for C17 replays: drop fault directives and seams that are not needed for the violation"""
import copy


def shrink(plan):
    out = []
    if plan.get("des", {}).get("crash_restart"):
        c = copy.deepcopy(plan)
        del c["des"]["crash_restart"]
        out.append(c)
    for i, op in enumerate(plan.get("ops", [])):
        for key in ("perm_seed",):
            if op.get(key) is not None:
                c = copy.deepcopy(plan)
                c["ops"][i][key] = None
                out.append(c)
        for key in ("names", "files", "r_step", "r_stop", "r_start", "idl", "ens_name", "replica"):
            if key in op:
                c = copy.deepcopy(plan)
                del c["ops"][i][key]
                out.append(c)
    p = plan.get("params", {})
    if p.get("distractors"):
        c = copy.deepcopy(plan)
        c["params"]["distractors"] = False
        out.append(c)
    return out
