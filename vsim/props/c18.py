"""C18 - truncated measurement files never produce wrong numbers (world A: crash points enumerated).

modes: cuts  - complete file set, then every (or a structured sample of) truncation offset of one file / all files
       crash - the simulated writers are killed at an arbitrary instant and byte; read; restart; read again
       live  - the reader races the writers (they append between two read() calls of the reader)
       archive - truncated json.gz / xml.gz / csv.gz exports (world B), every offset
"""
import os
import random

from .. import kernel, seams
from ..world_files import drivers, des, run

PROP = "c18"
BIN = ("rwms", "ms", "gfms", "ms5", "pbp")


def gen_plan(rng, tier):
    r = rng.random()
    if r < 0.16:
        from . import c18_archive
        return c18_archive.gen_plan(rng, tier)
    mode = "cuts" if r < 0.52 else ("crash" if r < 0.64 else "live")      # live runs are cheap and reach the rarest defects (15c, 15j)
    if os.environ.get("VSIM_C18_MODE"):        # experiments only (not used by the registered commands)
        mode = os.environ["VSIM_C18_MODE"]
    if mode == "live":
        kind = rng.choice(BIN)
    else:
        kind = rng.choice(sorted(drivers.KINDS))
    k = drivers.KINDS[kind]
    small = rng.random() < 0.6
    p = k.gen(rng, small=small)
    calls = p.pop("calls")
    if kind in ("ms", "gfms") and p.get("what") in ("t0", "w0"):
        p["what"] = "E"
        p.pop("n0", None)
        p["nn"] = rng.randint(1, 3)
        calls = [k.gen_call(rng, p) for _ in calls]
    if mode == "live" and kind == "gfms" and p["what"] == "coupling":
        p["what"] = "qtop"              # read_gf_coupling reads every file twice: excluded from live mode (DESIGN C18)
        calls = [k.gen_call(rng, p) for _ in calls]
    call = calls[0]
    call.pop("multi", None)          # truncation runs use the single-correlator entry point
    call.pop("keyed_out", None)
    if mode == "live" or rng.random() < 0.7:
        for kk in ("r_start", "r_stop", "r_step", "files", "idl"):
            call.pop(kk, None)
        if kind in ("hadrons", "hadrons_npr", "hadrons_dist") and p.get("mode") == "irregular":
            call["idl"] = list(p["cfgs"])
        call["sel"] = "none"
    nimg = k.nwriters(p) if hasattr(k, "nwriters") else len(k.images(p))
    plan = {"mode": mode, "kind": kind, "params": p, "call": call, "des": des.gen_des(rng, nimg)}
    if mode == "cuts":
        ops = []
        nops = rng.randint(1, 3)
        for _ in range(nops):
            which = rng.choice(["one", "one", "one", "all"])
            ops.append({"which": which, "file": rng.randrange(max(1, nimg)), "enumerate": small and rng.random() < 0.5,
                        "sample_seed": rng.getrandbits(30), "nsample": rng.choice([24, 48, 96])})
        plan["ops"] = ops
    elif mode == "crash":
        plan["ops"] = [{"at": round(rng.uniform(0.02, 0.98), 4), "torn": round(rng.uniform(0.02, 0.98), 3)} for _ in range(rng.randint(1, 3))]
    else:
        plan["ops"] = [{"start_at": round(rng.uniform(0.1, 0.9), 3), "advance_every": rng.choice([1, 1, 2, 3, 5, 8, 1000, 1000]), "steps": rng.choice([1, 1, 2, 3]),
                        "after_short": rng.choice([0, 1, 1, 2, 3]), "start_torn": rng.choice([False, True, True, "field_end", "field_end"]), "fill_after_short": rng.choice([0, 0, 1, 2])}]
        if plan["ops"][0]["fill_after_short"] and not plan["ops"][0]["after_short"]:
            plan["ops"][0]["after_short"] = 1
        if rng.random() < 0.35:
            # adversary profile: a reader much faster than the writers arrives while the last 1-3 bytes of a field are
            # missing, and the writer completes that record (and more) right after the reader's short read
            plan["ops"][0].update({"start_torn": "field_end", "advance_every": 1000, "fill_after_short": rng.choice([1, 1, 2]), "after_short": rng.choice([1, 1, 2]),
                                   "rounds": rng.choice([3, 6, 10])})      # several reads in one run, each from the next such state
            plan["des"]["dense_splits"] = True
            plan["des"]["field_end_tears"] = True
        if "dense_splits" not in plan["des"]:
            plan["des"]["dense_splits"] = rng.random() < 0.7      # records reach the file in 2-5 pieces: torn states are the rule while the reader runs
    return plan


# --------------------------------------------------------------------------- oracle helpers

def _match(exp, got):
    for label in exp:
        if label not in got:
            return ("values", "result lacks %s" % label)
        d = drivers.spec_diff(exp[label], drivers.obs_to_spec(got[label]))
        if d is not None:
            return (d[0], "%s: %s" % (label, d[1]))
    return None


def judge(ctx, comp, disc, acceptable, alternatives, out, nvals):
    """acceptable: list of expectation dicts (empty = must raise). alternatives: {clause: expectation} used only to
    *name* the kind of wrong answer.  Returns outcome class."""
    ctx.compared += 1
    if out[0] == "raise":
        ctx.probe("reader_raised")
        return "raised"
    got = out[1]
    first = None
    for exp in acceptable:
        d = _match(exp, got)
        if d is None:
            ctx.probe("reader_returned_prefix")
            ctx.compared += nvals
            return "prefix"
        first = first or d
    for clause, exp in alternatives:
        if exp is not None and _match(exp, got) is None:
            ctx.violation("c18." + clause, comp, disc, "reader returned the result that %s" % {
                "partial_record": "includes a record that is not completely before the cut",
                "dropped_complete": "lacks a complete record that precedes the cut"}.get(clause, clause))
            return "violation"
    if not acceptable:
        sp = {k: (drivers.obs_to_spec(o)["names"], [len(v) for v in drivers.obs_to_spec(o)["idl"].values()]) for k, o in list(got.items())[:1]}
        ctx.violation("c18.should_raise", comp, disc, "no complete prefix of >=5 records exists but the reader returned %r" % (sp,))
    else:
        ctx.violation("c18.wrong_numbers", comp, disc, "returned data is not the model's prefix: %s: %s" % first)
    return "violation"


def acceptable_for(kind, p, models, images, cuts, call):
    """-> (acceptable list, alternatives list) for a set of cuts {image idx: offset}"""
    if kind.name == "sfcf":
        return sfcf_acceptable(kind, p, models, images, cuts, call)
    nrecs = {}
    for i, img in enumerate(images):
        nrecs[i] = len(img.records) if cuts.get(i) is None else img.complete_before(cuts[i])
    exp = kind.expect(p, models, nrecs, call)
    if exp == "undefined":
        return None, []
    alts = []
    cut_files = [i for i in cuts if cuts[i] is not None and nrecs[i] >= 0]
    import itertools
    for clause, dlt in (("partial_record", 1), ("dropped_complete", -1)):
        for r in range(1, min(len(cut_files), 3) + 1):
            for sub in itertools.combinations(cut_files[:4], r):
                n2 = dict(nrecs)
                ok = True
                for i in sub:
                    if 0 <= nrecs[i] + dlt <= len(images[i].records):
                        n2[i] = nrecs[i] + dlt
                    else:
                        ok = False
                if ok:
                    e2 = kind.expect(p, models, n2, call)
                    if e2 not in (None, "undefined"):
                        alts.append((clause, e2))
    return ([exp] if exp is not None else []), alts


def sfcf_acceptable(kind, p, models, images, cuts, call):
    call = {k: v for k, v in call.items() if k not in ("multi", "keyed_out")}      # truncation runs use the single-correlator entry point
    b = p["blocks"][call["block"]]
    full = kind.expect(p, models, None, call)
    if p["layout"] in ("o", "c"):
        # which record of which image holds the requested block
        for i, img in enumerate(images):
            if cuts.get(i) is None:
                continue
            rep = models[i]["rep"]
            if p["layout"] == "o":
                if not img.name.endswith("/" + b["name"]):
                    continue
                rec = [bi for bi, bb in enumerate(p["blocks"]) if bb["name"] == b["name"]].index(call["block"])
            else:
                rec = call["block"]
            cfg = int(img.name.split("cfg")[-1].split("/")[0]) if p["layout"] == "o" else int(__import__("re").findall(r"\d+", img.name)[-1])
            if "files" in call:
                pos = drivers.sorted_reps(p["reps"]).index(rep)
                if cfg not in [int(__import__("re").findall(r"\d+", f)[-1]) for f in call["files"][pos]]:
                    continue
            if not kind.block_complete(p, img, cuts[i], rec):
                return [], [("partial_record", full)]
        return ([full] if full is not None else []), []
    # appended: one image per (replica, name); records are per-configuration chunks
    cfgsets_lo, cfgsets_hi = {}, {}
    for ri, rp in enumerate(p["reps"]):
        cfgsets_lo[ri] = list(rp["cfgs"])
        cfgsets_hi[ri] = list(rp["cfgs"])
    hit = False
    for i, img in enumerate(images):
        if cuts.get(i) is None or not img.name.endswith("." + b["name"]):
            continue
        hit = True
        rep = models[i]["rep"]
        nc = img.complete_before(cuts[i])
        nb = nc
        if nc < len(img.records):
            # is the requested (first) block of the next chunk completely before the cut?
            start = img.boundaries()[nc]
            chunk = img.records[nc]
            first_block_end = chunk.index(b"\n\n[correlator]", chunk.index(b"[correlator]")) + 1 if chunk.count(b"[correlator]") > 1 else len(chunk) - 1
            if start + first_block_end <= cuts[i]:
                nb = nc + 1
        cfgsets_lo[rep] = p["reps"][rep]["cfgs"][:nc]
        cfgsets_hi[rep] = p["reps"][rep]["cfgs"][:nb]
    if not hit:
        return ([full] if full is not None else []), []
    lo = kind.expect(p, models, None, call, cfgsets=cfgsets_lo)
    hi = kind.expect(p, models, None, call, cfgsets=cfgsets_hi)
    acc = [e for e in (lo, hi) if e is not None]
    more = {r: p["reps"][r]["cfgs"][:len(cfgsets_hi[r]) + 1] for r in cfgsets_hi}
    return acc, [("partial_record", kind.expect(p, models, None, call, cfgsets=more))]


def sample_offsets(img, rnd, nsample, enumerate_all):
    n = len(img.total())
    if enumerate_all or n <= 400:
        return list(range(n)), True
    offs = set(range(min(n, len(img.header) + 3)))
    b = img.boundaries()
    for x in b:
        for d in (-2, -1, 0, 1, 2):
            if 0 <= x + d < n:
                offs.add(x + d)
    for ri in (0, 1, len(img.records) - 2, len(img.records) - 1):
        if 0 <= ri < len(img.records):
            lo, hi = b[ri], b[ri + 1]
            if hi - lo <= 160:
                offs.update(range(lo, min(hi, n)))
            else:
                offs.update(rnd.randrange(lo, hi) for _ in range(40))
            for off, ln, tag in (img.fields[ri] if ri < len(img.fields) else []):
                for d in (-1, 0, 1):
                    if 0 <= lo + off + d < n:
                        offs.add(lo + off + d)
    if img.kind == "text":
        tot = img.total()
        nl = [i + 1 for i, ch in enumerate(tot) if ch == 10]
        for x in rnd.sample(nl, min(len(nl), 40)):
            if x < n:
                offs.add(x)          # line-wise cuts
        # byte-wise cuts inside the last lines / inside numbers of the last record
        for x in range(max(0, n - 120), n):
            offs.add(x)
    offs.update(rnd.randrange(n) for _ in range(nsample))
    return sorted(offs), False


def execute(plan, ctx):
    if plan["mode"] == "archive":
        from . import c18_archive
        return c18_archive.execute(plan, ctx)
    kind = drivers.KINDS[plan["kind"]]
    p = plan["params"]
    call = plan["call"]
    d = ctx.fresh_dir("data")
    comp = kind.component(p, call)
    budget = 1200 if ctx.tier == "quick" else 5000
    if plan["kind"] in ("hadrons", "hadrons_npr", "hadrons_dist"):
        return execute_hadrons(plan, ctx, kind, p, call, d, comp, budget)
    trip = kind.images(p)
    images = [t[0] for t in trip]
    models = {t[1]: t[2] for t in trip}
    nvals = sum(len(im.records) for im in images)
    cache = {}

    def acc_for(cuts):
        key = tuple(sorted((i, (None if c is None else (images[i].complete_before(c), c if kind.name == "sfcf" else 0))) for i, c in cuts.items()))
        if key not in cache:
            cache[key] = acceptable_for(kind, p, models, images, cuts, call)
        return cache[key]

    if plan["mode"] == "cuts":
        run.write_complete(images, d, kind.extra_files(p))
        # sanity: the untruncated set must read back as the model (otherwise C17's business, skip)
        acc, _ = acc_for({})
        if acc is None:
            ctx.probe("outside_documented_domain")
            return
        out = run.call_reader(kind, p, d, call, ctx)
        if out[0] == "raise" or not acc or _match(acc[0], out[1]) is not None:
            ctx.probe("complete_set_not_readable_skipped")
            return
        calls = 0
        for oi, op in enumerate(plan["ops"]):
            ctx.step = oi
            rnd = random.Random(kernel.H("offs", op["sample_seed"]))
            if op["which"] == "one":
                fi = op["file"] % len(images)
                img = images[fi]
                offs, exhaustive = sample_offsets(img, rnd, op["nsample"], op["enumerate"])
                path = os.path.join(d, img.name)
                n_done = 0
                for off in reversed(offs):
                    if calls >= budget:
                        exhaustive = False
                        break
                    os.truncate(path, off)
                    calls += 1
                    n_done += 1
                    acc, alts = acc_for({fi: off})
                    if acc is None:
                        ctx.probe("outside_documented_domain")
                        break
                    cls = img.classify(off)
                    disc = "cut"
                    out = run.call_reader(kind, p, d, call, ctx)
                    res = judge(ctx, comp, disc, acc, alts, out, nvals)
                    ctx.fault("crash_truncate")
                    ctx.probe("cut_" + cls)
                    ctx.sig(comp, cls, "1of%d" % len(images), res)
                    ctx.log("fault", "cut", fi, off, res)
                if exhaustive and n_done == len(offs):
                    ctx.probe("files_enumerated_exhaustively")
                    ctx.probe("offsets_in_exhaustive_files", len(offs))
                with open(path, "wb") as f:
                    f.write(img.total())
            else:
                for rep_i in range(min(op["nsample"] // 2, 40)):
                    if calls >= budget:
                        break
                    cuts = {}
                    for i, img in enumerate(images):
                        if rnd.random() < 0.7 or len(images) > 12:
                            if len(images) > 12 and rnd.random() < 0.85:
                                continue
                            n = len(img.total())
                            b = img.boundaries()
                            cuts[i] = rnd.choice([rnd.randrange(n), min(n - 1, rnd.choice(b) + rnd.choice([-1, 0, 1])), rnd.randrange(max(0, n - 200), n)])
                            cuts[i] = max(0, cuts[i])
                    for i, c in cuts.items():
                        os.truncate(os.path.join(d, images[i].name), c)
                    calls += 1
                    acc, alts = acc_for(cuts)
                    if acc is None:
                        ctx.probe("outside_documented_domain")
                        break
                    out = run.call_reader(kind, p, d, call, ctx)
                    res = judge(ctx, comp, "multi", acc, alts, out, nvals)
                    ctx.fault("crash_truncate", len(cuts))
                    ctx.sig(comp, "multi", "%dof%d" % (min(len(cuts), 3), min(len(images), 3)), res)
                    ctx.log("fault", "cuts", sorted(cuts.items()), res)
                    for i in cuts:
                        with open(os.path.join(d, images[i].name), "wb") as f:
                            f.write(images[i].total())
        return

    if acc_for({})[0] is None:
        ctx.probe("outside_documented_domain")
        return
    sim = des.Sim(images, plan["des"], d, ctx)
    t_end = sim.end_time()
    if plan["mode"] == "crash":
        for oi, op in enumerate(plan["ops"]):
            ctx.step = oi
            sim.run_until(sim.now + op["at"] * (sim.end_time() - sim.now))
            sim.crash(op["torn"])
            cuts = {i: (sim.bytes_written[i] if sim.bytes_written[i] < len(images[i].total()) else None) for i in range(len(images))}
            for i in range(len(images)):
                pth = sim.path(i)
                if not os.path.exists(pth) and p.get("layout") == "a":
                    os.makedirs(os.path.dirname(pth), exist_ok=True)
                    open(pth, "wb").close()
                    cuts[i] = 0
            missing = [i for i in range(len(images)) if not os.path.exists(sim.path(i))]
            if missing:
                # files not yet created: binary kinds -> replica absent (outside the truncation statement); skip the read
                ctx.probe("crash_before_all_files_exist")
            else:
                acc, alts = acc_for(cuts)
                out = run.call_reader(kind, p, d, call, ctx)
                res = judge(ctx, comp, "crash", acc, alts, out, nvals)
                ctx.sig(comp, "crash", "torn" if ctx.faults.get("torn_record") else "clean", res)
                ctx.log("fault", "crash", sorted((i, c) for i, c in cuts.items()), res)
            sim.restart()
        sim.run_all()
        ctx.sim_time = sim.now
        acc, alts = acc_for({})
        out = run.call_reader(kind, p, d, call, ctx)
        res = judge(ctx, comp, "after_restart", acc, alts, out, nvals)
        if res == "raised" and acc:
            ctx.violation("c18.no_result_after_restart", comp, "after_restart", "complete file set after a well-behaved restart raised %s: %s" % (out[1], out[2]))
        ctx.sig(comp, "after_restart", res)
        return

    # ---- live: the reader races the writers
    op = plan["ops"][0]
    sim.run_until(op["start_at"] * t_end)
    def live_round():
        if op.get("start_torn"):
            # bias: let the reader start while the last record of some file is only partly on disk ("field_end": with the
            # last 1-3 bytes of one of its fields still missing - the state in which an unchecked skip goes unnoticed)
            def torn_at(i):
                w = sim.bytes_written[i]
                if not os.path.exists(sim.path(i)) or images[i].complete_before(w) < 0 or w in images[i].boundaries():
                    return False
                if op["start_torn"] != "field_end":
                    return True
                b = images[i].boundaries()
                k = images[i].complete_before(w)
                rel = w - b[k]
                return k < len(images[i].fields) and any(off + ln - rel in (1, 2, 3) for off, ln, tag in images[i].fields[k])
            for _ in range(60 if op["start_torn"] != "field_end" else 400):
                if any(torn_at(i) for i in range(len(images))) or not sim.step():
                    break
            if op["start_torn"] == "field_end" and any(torn_at(i) for i in range(len(images))):
                ctx.probe("live_start_just_before_field_end")
        if any(not os.path.exists(sim.path(i)) for i in range(len(images))):
            ctx.probe("live_before_all_files_exist")
            return
        state = {"reads": 0, "open_len": {}, "close_len": {}}
        name_to_idx = {os.path.join(d, img.name): i for i, img in enumerate(images)}

        class LiveFile:
            def __init__(self, f, idx):
                self._f = f
                self._idx = idx

            def read(self, n=-1):
                state["reads"] += 1
                if state["reads"] % op["advance_every"] == 0:
                    for _ in range(op["steps"]):
                        if sim.step():
                            ctx.fault("live_read")
                data = self._f.read(n)
                if n is not None and n > 0 and len(data) < n and op.get("after_short"):
                    # adversarial but legal schedule: the writers append right after the reader came back short
                    for _ in range(op["after_short"]):
                        if sim.step():
                            ctx.fault("live_read")
                            ctx.probe("append_right_after_short_read")
                    if op.get("fill_after_short"):
                        # ... and this file's writer is fast: by the reader's next call the rest of the block and another
                        # block of the same size are there (a complete read that starts in the middle of a block)
                        target = sim.bytes_written[self._idx] + (n - len(data)) + n * op["fill_after_short"]
                        for _ in range(80):
                            if sim.bytes_written[self._idx] >= target or not sim.step():
                                break
                            ctx.fault("live_read")
                        ctx.probe("file_filled_after_short_read")
                return data

            def __enter__(self):
                return self

            def __exit__(self, *a):
                state["close_len"][self._idx] = sim.bytes_written[self._idx]
                self._f.close()
                return False

            def __getattr__(self, name):
                return getattr(self._f, name)

        def sim_open(path, mode="r", *a, **k):
            f = seams.real_open(path, mode, *a, **k)
            idx = name_to_idx.get(os.path.normpath(path))
            if idx is None or "b" not in mode:
                return f
            state["open_len"].setdefault(idx, sim.bytes_written[idx])
            return LiveFile(f, idx)

        import pyerrors.input.openQCD as oq
        import pyerrors.input.misc as im
        out = run.call_reader(kind, p, d, call, ctx, extra_patches=[(oq, "open", sim_open), (im, "open", sim_open)])
        ctx.sim_time = sim.now
        ctx.compared += 1
        if out[0] == "raise":
            ctx.probe("reader_raised")
            ctx.sig(comp, "live", "raised")
            return
        names = kind.rep_names(p, call)
        got = out[1]
        anyobs = got[sorted(got)[0]]
        counts = {}
        for i, nm in names.items():
            if nm not in anyobs.names:
                ctx.violation("c18.wrong_numbers", comp, "live", "replica %s missing from the result" % nm)
                return
            counts[i] = len(list(anyobs.idl[nm]))
        for i, img in enumerate(images):
            lo = max(0, img.complete_before(state["open_len"].get(i, 0)))
            hi = img.complete_before(state["close_len"].get(i, sim.bytes_written[i]))
            if counts[i] > hi:
                ctx.violation("c18.partial_record", comp, "live", "replica file %d: %d records returned, only %d were complete when the file was closed" % (i, counts[i], hi))
                return
            if counts[i] < lo:
                ctx.violation("c18.dropped_complete", comp, "live", "replica file %d: %d records returned, %d were complete when it was opened" % (i, counts[i], lo))
                return
            if hi > lo:
                ctx.probe("live_file_grew_during_read")
        exp = kind.expect(p, models, counts, call)
        if exp == "undefined":
            return
        if exp is None:
            ctx.violation("c18.should_raise", comp, "live", "result returned for counts %r for which no valid result exists" % (counts,))
            return
        dd = _match(exp, got)
        ctx.compared += nvals
        if dd is not None:
            ctx.violation("c18.wrong_numbers", comp, "live", "%s: %s" % dd)
        else:
            ctx.probe("reader_returned_prefix")
        ctx.sig(comp, "live", "prefix", "grew" if ctx.probes.get("live_file_grew_during_read") else "static")

    for rnd_i in range(op.get("rounds", 1)):
        if rnd_i:
            if not sim.step():          # leave the state the previous round started from
                break
            ctx.probe("live_further_round")
        live_round()
        if ctx.violations:
            break


def execute_hadrons(plan, ctx, kind, p, call, d, comp, budget):
    models = kind.write_all(p, d)
    full = kind.expect(p, models, None, call)
    out = run.call_reader(kind, p, d, call, ctx)
    if out[0] == "raise" or full is None or _match(full, out[1]) is not None:
        ctx.probe("complete_set_not_readable_skipped")
        return
    nvals = kind.nvals(p) if hasattr(kind, "nvals") else len(p["cfgs"]) * p["T"]
    ops = plan["ops"] if plan["mode"] == "cuts" else [{"file": 0, "sample_seed": 1, "nsample": 24, "which": "one", "enumerate": False}]
    calls = 0
    idl = kind._idl(call)
    used = [c for c in p["cfgs"] if idl is None or c in idl]
    for oi, op in enumerate(ops):
        ctx.step = oi
        rnd = random.Random(kernel.H("offs", op["sample_seed"]))
        c = used[op["file"] % len(used)]
        path = kind.file_for(p, d, c, op["file"])
        data = open(path, "rb").read()
        n = len(data)
        offs = sorted(set([0, 1, 7, 8, 9, 95, 96, 511, 512, n - 1, n - 2, n - 8, n - 9] + [rnd.randrange(n) for _ in range(min(op["nsample"], 32))]))
        offs = [o for o in offs if 0 <= o < n]
        for off in reversed(offs):
            if calls >= budget // 8:
                break
            os.truncate(path, off)
            calls += 1
            out = run.call_reader(kind, p, d, call, ctx)
            drop = kind.expect(p, models, None, call, present=set(p["cfgs"]) - {c}) if idl is None else None
            res = judge(ctx, comp, "h5cut", [full], [("dropped_complete", drop)], out, nvals)
            ctx.fault("crash_truncate")
            ctx.sig(comp, "h5cut", res)
            ctx.log("fault", "cut", c, off, res)
        with open(path, "wb") as f:
            f.write(data)
