import copy

from .. import shrinkers


def _has_struct(d):
    for name in d:
        v = d[name]["val"]
        if "v" in v or "l" in v or "ll" in v or ("d" in v and _has_struct(v["d"])):
            return True
    return False


def shrink(plan):
    # a dictionary without any observable is outside the generator's domain (load_json_dict refuses it by design)
    for c in _shrink(plan):
        if all(_has_struct(d) for d in c.get("dicts", [])):
            yield c


def _shrink(plan):
    yield from shrinkers.drop_pool_elements(plan, "items", keep=1)
    yield from shrinkers.drop_pool_elements(plan, "dicts", keep=1)
    for si, s in enumerate(plan.get("items", [])):
        lay = s.get("layout", {})
        if len(lay.get("chains", [])) > 1:
            for ci in range(len(lay["chains"])):
                c = copy.deepcopy(plan)
                del c["items"][si]["layout"]["chains"][ci]
                yield c
        for k, v in (("cov", None), ("mag", 1.0), ("reweighted", False)):
            if lay.get(k) != v:
                c = copy.deepcopy(plan)
                c["items"][si]["layout"][k] = v
                yield c
        if s.get("t") == "corr":
            for k, v in (("none", []), ("pad", [0, 0]), ("N", 1), ("prange", None), ("ctag", None)):
                if s.get(k) != v:
                    c = copy.deepcopy(plan)
                    c["items"][si][k] = v
                    yield c
    # dictionaries: drop entries (at any depth), simplify the structures they hold
    def nodes(d, path):
        """yield (path to a dict node, node) for the generated dictionary description d"""
        yield path, d
        for name in sorted(d):
            v = d[name]["val"]
            if "d" in v:
                yield from nodes(v["d"], path + [name, "val", "d"])

    def at(root, path):
        for p in path:
            root = root[p]
        return root

    for di, dd in enumerate(plan.get("dicts", [])):
        for path, node in nodes(dd, []):
            if len(node) > 1 or path:
                for name in sorted(node):
                    if len(node) == 1 and not path:
                        continue
                    c = copy.deepcopy(plan)
                    del at(c["dicts"][di], path)[name]
                    if at(c["dicts"][di], path) or path:
                        yield c
            for name in sorted(node):
                v = node[name]["val"]
                structs = []
                if "v" in v:
                    structs.append(["v"])
                if "l" in v:
                    structs.append(["l", 1, "v"])
                if "ll" in v:
                    structs += [["ll", 0, "v"], ["ll", 1, "v"]]
                    if v.get("empty"):
                        c = copy.deepcopy(plan)
                        at(c["dicts"][di], path)[name]["val"]["empty"] = False
                        yield c
                for sp in structs:
                    st = at(v, sp)
                    if st.get("t") != "obs":
                        c = copy.deepcopy(plan)
                        tgt = at(at(c["dicts"][di], path)[name]["val"], sp)
                        tgt.clear()
                        tgt.update({"t": "obs", "layout": copy.deepcopy(st["layout"]), "seed": st["seed"], "tag": 0})
                        yield c
                    lay = st.get("layout", {})
                    if len(lay.get("chains", [])) > 1:
                        for ci in range(len(lay["chains"])):
                            c = copy.deepcopy(plan)
                            del at(at(c["dicts"][di], path)[name]["val"], sp)["layout"]["chains"][ci]
                            yield c
                    for k, val in (("cov", None), ("zero_cov", None), ("mag", 1.0), ("reweighted", False), ("nonlinear", False)):
                        if lay.get(k) != val:
                            c = copy.deepcopy(plan)
                            at(at(c["dicts"][di], path)[name]["val"], sp)["layout"][k] = val
                            yield c
    yield from shrinkers.simplify_ops(plan, drop_keys=("fault",), set_values=(("where", "session"), ("desc", ""), ("indent", 1), ("gm_first", False)))
