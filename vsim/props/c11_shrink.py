import copy

from .. import shrinkers


def shrink(plan):
    yield from shrinkers.drop_pool_elements(plan, "items", keep=1)
    yield from shrinkers.drop_pool_elements(plan, "dicts", keep=1)
    for si, s in enumerate(plan.get("items", [])):
        lay = s.get("layout", {})
        if len(lay.get("chains", [])) > 1:
            for ci in range(len(lay["chains"])):
                c = copy.deepcopy(plan)
                del c["items"][si]["layout"]["chains"][ci]
                yield c
        for k, v in (("cov", None), ("mag", 1.0), ("reweighted", False)):
            if lay.get(k) != v:
                c = copy.deepcopy(plan)
                c["items"][si]["layout"][k] = v
                yield c
        if s.get("t") == "corr":
            for k, v in (("none", []), ("pad", [0, 0]), ("N", 1), ("prange", None), ("ctag", None)):
                if s.get(k) != v:
                    c = copy.deepcopy(plan)
                    c["items"][si][k] = v
                    yield c
    yield from shrinkers.simplify_ops(plan, drop_keys=("fault",), set_values=(("where", "session"), ("desc", ""), ("indent", 1), ("gm_first", False)))
