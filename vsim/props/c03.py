"""C03 - error analysis is invariant under relabelling, rescaling and call history (world C).

Session = one long-lived interpreter state (this forked child); reference = pristine process forked from the
worker *before* anything happened (helper 'ref'), rebuilding operands from plain arrays.
"""
import copy
import math

import numpy as np

from .. import kernel
from ..world_session import objs

PROP = "c03"
NEEDS_REF = True

DOC_DEFAULTS = {"S": 2.0, "tau_exp": 0.0, "N_sigma": 1.0}      # from the class docstring, not from the class
VALUES = {"S": [0, 0.0, 1, 1.5, 2.0, 3, 5.5], "tau_exp": [0, 0.0, 0.5, 2, 10.0], "N_sigma": [0, 1, 1.0, 2, 3.5]}
INVALID = [-1, -0.5, "2", None, [2.0]]
BINOPS = ["add", "sub", "mul", "div"]
FUNCS = ["exp", "sin", "cos", "sinh", "tanh", "neg", "sq", "abs", "arctan"]


def gen_kw(rng):
    kw = {}
    for par in ("S", "tau_exp", "N_sigma"):
        if rng.random() < (0.45 if par == "S" else 0.25):
            kw[par] = rng.choice(VALUES[par])
    if rng.random() < 0.3:
        kw["fft"] = rng.random() < 0.5
    return kw


def gen_plan(rng, tier):
    P = rng.randint(2, 5)
    specs = [objs.gen_obs_spec(rng, nmin=rng.choice([5, 8, 8, 16]), nmax=rng.choice([12, 40, 64])) for _ in range(P)]
    if rng.random() < 0.4 and P >= 2:
        # two pool objects on sibling layouts (same endpoints and length, other holes), possibly under other ensemble names
        import copy
        src = specs[0]
        sib = copy.deepcopy(src)
        for part in sib["parts"]:
            ren = rng.random() < 0.5
            for ch in part["chains"]:
                ch["idl"] = objs.sibling_idl(rng, ch["idl"])
                ch["data"]["seed"] = rng.getrandbits(32)
                if ren:
                    e, _, r_ = ch["name"].partition("|")
                    ch["name"] = ("Sb" + e) + ("|" + r_ if r_ else "")
        sib.pop("cov", None)
        specs[1] = sib
    ops = []
    n = rng.randint(8, 30)
    for _ in range(n):
        r = rng.random()
        if r < 0.10:
            ops.append({"op": "set_global", "param": rng.choice(["S", "tau_exp", "N_sigma"])})
            ops[-1]["value"] = rng.choice(VALUES[ops[-1]["param"]])
        elif r < 0.22:
            par = rng.choice(["S", "tau_exp", "N_sigma"])
            ops.append({"op": "set_dict", "param": par, "ens": rng.choice(["A", "B2", "ens_c", "Dd", "covA"]), "value": rng.choice(VALUES[par])})
        elif r < 0.26:
            ops.append({"op": rng.choice(["del_dict", "clear_dict"]), "param": rng.choice(["S", "tau_exp", "N_sigma"]), "ens": rng.choice(["A", "B2", "ens_c", "Dd"])})
        elif r < 0.56:
            ops.append({"op": "gm", "i": rng.randrange(64), "kw": gen_kw(rng), "via": rng.choice(["method", "method", "alias", "vector", "cobs", "corr", "fit_result"]),
                        "j": rng.randrange(64), "twice": rng.random() < 0.4})
        elif r < 0.61:
            ops.append({"op": "gm_invalid", "i": rng.randrange(64), "param": rng.choice(["S", "tau_exp", "N_sigma"]), "value": rng.choice(INVALID)})
        elif r < 0.69:
            ops.append({"op": "gm_interrupt", "i": rng.randrange(64), "kw": gen_kw(rng), "frac": round(rng.random(), 4),
                        "enumerate": rng.random() < (0.02 if tier == "thorough" else 0.004)})
        elif r < 0.81:
            ops.append({"op": "arith", "f": rng.choice(BINOPS), "i": rng.randrange(64), "j": rng.randrange(64), "dst": rng.randrange(64)})
        elif r < 0.87:
            ops.append({"op": "func", "f": rng.choice(FUNCS), "i": rng.randrange(64), "dst": rng.randrange(64)})
        else:
            kind = rng.choice(["fft", "relabel", "rename", "shift", "scale", "order"])
            o = {"op": "meta", "kind": kind, "spec": objs.gen_obs_spec(rng, nmin=8, nmax=48, allow_cov=False), "kw": gen_kw(rng)}
            for part in o["spec"]["parts"]:
                for ch in part["chains"]:
                    if ch["data"]["kind"] == "const":
                        ch["data"]["kind"] = "white"      # a constant chain has no error to compare
            o["kw"].pop("fft", None)
            if kind == "relabel":
                o["a"], o["b"] = rng.choice([1, 2, 3, 10]), rng.choice([0, 1, 7, 1000])
            elif kind == "shift":
                o["c"] = rng.choice([1.0, -3.5, 100.0, 1e3])
            elif kind == "scale":
                o["c"] = rng.choice([2.0, -1.0, 0.5, 3.0, -7.25, 1e-3, 1e4, 1e-18, -1e-40, 1e-120, 1e30])      # far from 1 too: no absolute thresholds in the analysis
            elif kind == "rename":
                o["salt"] = rng.getrandbits(16)
            ops.append(o)
    return {"specs": specs, "ops": ops}


# ------------------------------------------------------------------------------------- reference side

def ref_handler(req):
    """runs in a child forked from the pristine reference server"""
    import pyerrors as pe
    if req["op"] == "gm_proj":
        o = objs.rebuild(req["plain"], only_ens=req["ens"])
        o.gamma_method(**req["kw"])
        return objs.analysis_of(o, req["ens"])
    if req["op"] == "gm_full":
        o = objs.rebuild(req["plain"])
        for par in ("S", "tau_exp", "N_sigma"):
            setattr(pe.Obs, par + "_dict", {e: v[par] for e, v in req["eff"].items()})
        o.gamma_method(fft=req["fft"])
        return {e: objs.analysis_of(o, e) for e in o.mc_names}, float(o.dvalue), float(o.ddvalue)
    if req["op"] == "arith":
        a = objs.rebuild(req["a"])
        b = objs.rebuild(req["b"]) if req.get("b") is not None else None
        return objs.plain(apply_op(req["f"], a, b))
    raise ValueError(req["op"])


def apply_op(f, a, b=None):
    if f == "add":
        return a + b
    if f == "sub":
        return a - b
    if f == "mul":
        return a * b
    if f == "div":
        return a / b
    if f == "neg":
        return -a
    if f == "sq":
        return a ** 2
    if f == "abs":
        return abs(a)
    return getattr(np, f)(a)


# ------------------------------------------------------------------------------------- session side

class Model:
    def __init__(self):
        self.glob = dict(DOC_DEFAULTS)
        self.dict = {"S": {}, "tau_exp": {}, "N_sigma": {}}

    def effective(self, ens_names, kw):
        out = {}
        for e in ens_names:
            out[e] = {}
            for par in ("S", "tau_exp", "N_sigma"):
                if par in kw:
                    out[e][par] = kw[par]
                    src = "explicit"
                elif e in self.dict[par]:
                    out[e][par] = self.dict[par][e]
                    src = "dict"
                else:
                    out[e][par] = self.glob[par]
                    src = "global"
                out[e]["src_" + par] = src
        return out


def check_globals(ctx, model, where):
    import pyerrors as pe
    for par in ("S", "tau_exp", "N_sigma"):
        g = getattr(pe.Obs, par + "_global")
        d = getattr(pe.Obs, par + "_dict")
        ctx.compared += 1
        if g != model.glob[par] or type(g) is not type(model.glob[par]) or d != model.dict[par]:
            ctx.violation("c03.globals_altered", where, par, "Obs.%s_global/_dict = %r/%r, set by the session: %r/%r" % (par, g, d, model.glob[par], model.dict[par]))
            return False
    return True


def window_margin(A, eN_hint=None):
    """min |g_w| up to the chosen window for the standard criterion; None if not applicable."""
    try:
        S, W = A["S"], A["e_windowsize"]
        if A["tau_exp"] and A["tau_exp"] > 0:
            rho, drho, ns = A["e_rho"], A["e_drho"], A["N_sigma"]
            m = [abs(rho[n] - ns * drho[n]) for n in range(1, min(W + 2, len(rho)))]
            return min(m) if m else None
        if not S:
            return None
        nt = np.asarray(A["e_n_tauint"])[1:]
        tau = S / np.log((2 * nt + 1) / (2 * nt - 1))
        return None if eN_hint is None else float(np.min(np.abs(np.exp(-np.arange(1, len(tau) + 1) / tau) - tau / np.sqrt(np.arange(1, len(tau) + 1) * eN_hint))[:W + 1]))
    except Exception:
        return None


def compare_meta(ctx, kind, o1, o2, emap, scale=1.0, bitwise=False):
    """metamorphic partners analysed under the same effective parameters must agree."""
    for e1 in o1.mc_names:
        e2 = emap.get(e1, e1)
        A, B = objs.analysis_of(o1, e1), objs.analysis_of(o2, e2)
        ctx.compared += 1
        if bitwise:
            d = objs.analysis_equal(A, B)
            if d:
                ctx.violation("c03.relabel", "gamma_method", kind, "ensemble %s: %s" % (e1, d))
                return
            continue
        if A["e_windowsize"] != B["e_windowsize"]:
            eN = sum(o1.shape[r] for r in o1.e_content[e1])
            m1, m2 = window_margin(A, eN), window_margin(B, eN)
            if m1 is None or m2 is None or min(m1, m2) < 1e-7:
                ctx.probe("window_margin_skip")
                continue
            ctx.violation("c03.metamorphic", "gamma_method", kind, "ensemble %s: window %r vs %r (margins %.3g, %.3g)" % (e1, A["e_windowsize"], B["e_windowsize"], m1, m2))
            return
        for k in ("e_dvalue", "e_ddvalue"):
            x, y = A[k], B[k]
            if x is None or y is None:
                if x is not y:
                    ctx.violation("c03.metamorphic", "gamma_method", kind, "ensemble %s: %s %r vs %r" % (e1, k, x, y))
                    return
                continue
            if not abs(abs(scale) * x - y) <= 1e-7 * max(abs(y), abs(scale) * abs(x)) + 1e-300:
                ctx.violation("c03.metamorphic", "gamma_method", kind, "ensemble %s: %s %r*|%g| vs %r" % (e1, k, x, scale, y))
                return
        for k in ("e_tauint", "e_dtauint"):
            x, y = A[k], B[k]
            if (x is None) != (y is None) or (x is not None and not abs(x - y) <= 1e-7 * max(abs(x), abs(y)) + 1e-300):
                ctx.violation("c03.metamorphic", "gamma_method", kind, "ensemble %s: %s %r vs %r" % (e1, k, x, y))
                return


def sanity(ctx, o):
    for e in o.mc_names:
        t = o.e_tauint.get(e)
        ctx.compared += 1
        if t is None or not (t >= 0.5) or not np.isfinite(t):
            ctx.violation("c03.sanity", "gamma_method", "tauint", "tau_int[%s] = %r" % (e, t))
            return False
        for k in ("e_dvalue", "e_ddvalue", "e_dtauint"):
            v = getattr(o, k).get(e)
            if v is None or not np.isfinite(v) or v < 0:
                ctx.violation("c03.sanity", "gamma_method", k, "%s[%s] = %r" % (k, e, v))
                return False
    if not (np.isfinite(o.dvalue) and o.dvalue >= 0 and np.isfinite(o.ddvalue) and o.ddvalue >= 0):
        ctx.violation("c03.sanity", "gamma_method", "totals", "dvalue=%r ddvalue=%r" % (o.dvalue, o.ddvalue))
        return False
    return True


def totals_ok(ctx, o):
    s2 = sum(float(o.e_dvalue[e]) ** 2 for e in o.mc_names) + sum(float(o.covobs[c].errsq()) for c in o.cov_names)
    dv = math.sqrt(s2)
    ctx.compared += 1
    if not abs(dv - o.dvalue) <= 1e-13 * max(dv, 1e-300):
        ctx.violation("c03.totals", "gamma_method", "dvalue", "dvalue %r, combination of per-ensemble errors %r" % (o.dvalue, dv))
        return False
    if dv > 0:
        dd = math.sqrt(sum((float(o.e_dvalue[e]) * float(o.e_ddvalue[e])) ** 2 for e in o.mc_names)) / dv
        if not abs(dd - o.ddvalue) <= 1e-13 * max(dd, 1e-300) + 1e-300:
            ctx.violation("c03.totals", "gamma_method", "ddvalue", "ddvalue %r, combination %r" % (o.ddvalue, dd))
            return False
    return True


def tolerant_equal(ctx, a, b):
    """bitwise equality expected (same code, same data, same machine); should a BLAS / FFT kernel ever round differently
    for differently aligned buffers in the two processes, a relative difference <= 1e-12 is tolerated and counted"""
    d = objs.analysis_equal(a, b)
    if d is None:
        return None
    if a.get("e_windowsize") != b.get("e_windowsize"):
        return d
    d2 = objs.analysis_equal(a, b, rtol=1e-12)
    if d2 is None:
        ctx.probe("ulp_level_diff")
    return d2


def check_gm(ctx, ref, o, eff, fft, hist, mode):
    """the session object's analysis must equal the pristine reference bit for bit"""
    pl = objs.plain(o)
    if mode == "full":
        r = ref.call({"op": "gm_full", "plain": pl, "eff": eff, "fft": fft})
        if r[0] != "ok":
            ctx.violation("c03.history", "gamma_method", "ref_raised", "session analysis succeeded, pristine reference raised %s: %s" % (r[1], r[2]))
            return False
        per, dv, ddv = r[1]
        for e in o.mc_names:
            d = tolerant_equal(ctx, objs.analysis_of(o, e), per[e])
            ctx.compared += 1
            if d:
                ctx.violation("c03.history", "gamma_method", _src(eff, e), "ensemble %s differs from the analysis in a pristine process (dict-supplied parameters): %s [history: %s]" % (e, d, hist))
                return False
        if not (abs(dv - float(o.dvalue)) <= 1e-12 * max(dv, 1e-300) and abs(ddv - float(o.ddvalue)) <= 1e-12 * max(ddv, 1e-300)):
            ctx.violation("c03.history", "gamma_method", "totals", "dvalue/ddvalue %r/%r vs pristine %r/%r" % (o.dvalue, o.ddvalue, dv, ddv))
            return False
        return True
    for e in o.mc_names:
        # the reference gets the effective parameters as floats: an int and a float of equal value are the same parameter
        kw = {par: float(eff[e][par]) for par in ("S", "tau_exp", "N_sigma")}
        kw["fft"] = fft
        r = ref.call({"op": "gm_proj", "plain": pl, "ens": e, "kw": kw})
        ctx.compared += 1
        if r[0] != "ok":
            ctx.violation("c03.history", "gamma_method", "ref_raised", "session analysis succeeded, pristine single-ensemble reference for %s raised %s: %s" % (e, r[1], r[2]))
            return False
        d = tolerant_equal(ctx, objs.analysis_of(o, e), r[1])
        if d:
            ctx.violation("c03.history", "gamma_method", _src(eff, e), "ensemble %s differs from the pristine single-ensemble analysis with explicit parameters %r: %s [history: %s]" % (e, kw, d, hist))
            return False
    return True


def _src(eff, e):
    return "/".join(eff[e]["src_" + p][0] for p in ("S", "tau_exp", "N_sigma"))


def execute(plan, ctx):
    import pyerrors as pe
    ref = ctx.clients["ref"]
    model = Model()
    pool = [objs.build_obs(s) for s in plan["specs"]]
    analysed = [False] * len(pool)     # has a completed analysis
    nhist = 0
    for oi, op in enumerate(plan["ops"]):
        ctx.step = oi
        kind = op["op"]
        ctx.log("session", kind, {k: v for k, v in op.items() if k != "spec"})
        if kind == "set_global":
            setattr(pe.Obs, op["param"] + "_global", op["value"])
            model.glob[op["param"]] = op["value"]
        elif kind == "set_dict":
            getattr(pe.Obs, op["param"] + "_dict")[op["ens"]] = op["value"]
            model.dict[op["param"]][op["ens"]] = op["value"]
        elif kind == "del_dict":
            getattr(pe.Obs, op["param"] + "_dict").pop(op["ens"], None)
            model.dict[op["param"]].pop(op["ens"], None)
        elif kind == "clear_dict":
            getattr(pe.Obs, op["param"] + "_dict").clear()
            model.dict[op["param"]].clear()
        elif kind == "gm":
            i = op["i"] % len(pool)
            targets = [i]
            if op["via"] in ("vector", "cobs", "corr"):
                j = op["j"] % len(pool)
                if j != i:
                    targets.append(j)
            before = [objs.data_digest(pool[t]) for t in targets]
            kw = dict(op["kw"])
            if op["via"] == "fit_result":
                # Fit_result.gamma_method: the fit parameters are analysed through the result object
                try:
                    ys = [pool[(i + t_) % len(pool)] for t_ in range(3)]
                    for y_ in ys:
                        y_.gamma_method()
                    fr = pe.fits.least_squares([1.0, 2.0, 3.0], ys, lambda p_, x_: p_[0] + p_[1] * x_, silent=True)
                    fr.gamma_method(**kw)
                except Exception:
                    for t_ in range(3):
                        analysed[(i + t_) % len(pool)] = False
                    continue
                for t_ in range(3):
                    analysed[(i + t_) % len(pool)] = True
                check_globals(ctx, model, "gamma_method")
                fft = kw.get("fft", True) is not False
                for o in fr.fit_parameters:
                    eff = model.effective(o.e_names, kw)
                    if sanity(ctx, o) and totals_ok(ctx, o):
                        check_gm(ctx, ref, o, eff, fft, "%d ops, via Fit_result" % oi, "proj")
                    ctx.sig("gm", "fit_result", _src(eff, o.mc_names[0]) if o.mc_names else "-")
                continue
            try:
                if op["via"] == "method":
                    pool[i].gamma_method(**kw)
                elif op["via"] == "alias":
                    pool[i].gm(**kw)
                elif op["via"] == "vector":
                    pe.gamma_method(np.array([pool[t] for t in targets]), **kw)
                elif op["via"] == "cobs":
                    pe.CObs(pool[targets[0]], pool[targets[-1]]).gamma_method(**kw)
                else:
                    try:
                        c = pe.Corr([pool[t] for t in targets])
                    except Exception:
                        c = pe.Corr([pool[targets[0]]] * 2)     # Corr demands identical ensemble content
                        targets = targets[:1]
                        before = before[:1]
                    c.gamma_method(**kw)
                raised = None
            except Exception as e:
                raised = e
            for t, b in zip(targets, before):
                ctx.compared += 1
                if objs.data_digest(pool[t]) != b:
                    ctx.violation("c03.data_altered", "gamma_method", "gm", "central value / fluctuations / configuration lists changed by the analysis")
            check_globals(ctx, model, "gamma_method")
            fft = kw.get("fft", True) is not False
            if raised is not None:
                # legitimate only if a pristine process raises too (e.g. tau_exp on a short chain, no common spacing)
                ctx.fault("natural_exception")
                t = targets[0]
                eff = model.effective(pool[t].e_names, kw)
                anyref = False
                for t in targets:
                    eff = model.effective(pool[t].e_names, kw)
                    r = ref.call({"op": "gm_full", "plain": objs.plain(pool[t]), "eff": eff, "fft": fft})
                    if r[0] == "exc":
                        anyref = True
                    analysed[t] = False
                ctx.compared += 1
                if not anyref:
                    ctx.violation("c03.history", "gamma_method", "spurious_exception", "analysis raised %s: %s, but succeeds in a pristine process" % (type(raised).__name__, str(raised)[:120]))
                else:
                    ctx.probe("natural_exception_confirmed_by_reference")
                continue
            nhist += 1
            for t in targets:
                o = pool[t]
                eff = model.effective(o.e_names, kw)
                mode = "full" if (oi + t) % 3 == 0 else "proj"
                ok = sanity(ctx, o) and totals_ok(ctx, o) and check_gm(ctx, ref, o, eff, fft, "%d ops, analysed before: %s" % (oi, analysed[t]), mode)
                for e in o.mc_names:
                    ctx.sig("gm", op["via"], _src(eff, e), "again" if analysed[t] else "first", "fft" if fft else "nofft",
                            "irr" if any(isinstance(o.idl[r], list) for r in o.e_content[e]) else "reg", "R%d" % len(o.e_content[e]),
                            "texp" if eff[e]["tau_exp"] else ("S0" if not eff[e]["S"] else "S"))
                    if any(isinstance(o.idl[r], list) for r in o.e_content[e]):
                        ctx.probe("irregular_idl_analysed")
                    if eff[e]["src_S"] == "explicit" and e in model.dict["S"]:
                        ctx.probe("explicit_over_dict")
                    if eff[e]["src_S"] == "dict":
                        ctx.probe("dict_over_global")
                if analysed[t]:
                    ctx.probe("reanalysis_after_history")
                analysed[t] = True
                if ok and op.get("twice"):
                    A1 = {e: objs.analysis_of(o, e) for e in o.mc_names}
                    dv = (o.dvalue, o.ddvalue)
                    o.gamma_method(**kw)
                    for e in o.mc_names:
                        d = objs.analysis_equal(A1[e], objs.analysis_of(o, e))
                        ctx.compared += 1
                        if d or dv != (o.dvalue, o.ddvalue):
                            ctx.violation("c03.repeatable", "gamma_method", "twice", "second identical call changed the result: %s" % d)
                            break
        elif kind == "gm_invalid":
            i = op["i"] % len(pool)
            b = objs.data_digest(pool[i])
            try:
                pool[i].gamma_method(**{op["param"]: op["value"]})
                raised = False
            except Exception:
                raised = True
            ctx.compared += 1
            ctx.fault("natural_exception")
            if not raised:
                ctx.violation("c03.invalid_accepted", "gamma_method", op["param"], "invalid %s=%r accepted" % (op["param"], op["value"]))
            if objs.data_digest(pool[i]) != b:
                ctx.violation("c03.data_altered", "gamma_method", "gm_invalid", "data changed by a rejected analysis request")
            check_globals(ctx, model, "gamma_method")
            analysed[i] = False
        elif kind == "gm_interrupt":
            i = op["i"] % len(pool)
            o = pool[i]
            kw = dict(op["kw"])
            probe_copy = objs.rebuild(objs.plain(o))
            st, v, nlines = objs.run_interruptible(lambda: probe_copy.gamma_method(**kw), None)
            if st != "done" or nlines < 2:
                continue
            ks = list(range(1, nlines + 1)) if op.get("enumerate") else [1 + int(op["frac"] * (nlines - 1))]
            if op.get("enumerate"):
                ctx.probe("interrupt_points_enumerated", len(ks))
            for k in ks:
                b = objs.data_digest(o)
                st, v, _ = objs.run_interruptible(lambda: o.gamma_method(**kw), k)
                ctx.compared += 1
                if st == "interrupted":
                    ctx.fault("interrupt_at_line")
                    if not hasattr(o, "e_windowsize") or len(getattr(o, "e_dvalue", {})) < len(o.mc_names):
                        ctx.probe("interrupt_left_partial_analysis")
                if objs.data_digest(o) != b:
                    ctx.violation("c03.data_altered", "gamma_method", "interrupt", "data changed by an interrupted analysis (line event %d of %d)" % (k, nlines))
                    break
                if not check_globals(ctx, model, "gamma_method/interrupt"):
                    break
            analysed[i] = False
            # the next completed analysis must be unaffected by the torn one: do it right away half of the time
            if op["frac"] < 0.5:
                try:
                    o.gamma_method(**kw)
                except Exception:
                    continue
                eff = model.effective(o.e_names, kw)
                if sanity(ctx, o) and totals_ok(ctx, o):
                    check_gm(ctx, ref, o, eff, kw.get("fft", True) is not False, "after interrupted analysis", "proj")
                ctx.sig("gm_after_interrupt", _src(eff, o.mc_names[0]) if o.mc_names else "-")
                analysed[i] = True
        elif kind in ("arith", "func"):
            i = op["i"] % len(pool)
            a = pool[i]
            b = pool[op["j"] % len(pool)] if kind == "arith" else None
            da, db = objs.data_digest(a), (objs.data_digest(b) if b is not None else None)
            try:
                res = apply_op(op["f"], a, b)
                raised = None
            except Exception as e:
                raised = e
            ctx.compared += 1
            if objs.data_digest(a) != da or (b is not None and objs.data_digest(b) != db):
                ctx.violation("c03.data_altered", "arithmetic", op["f"], "operand changed by %s" % op["f"])
            r = ref.call({"op": "arith", "f": op["f"], "a": objs.plain(a), "b": objs.plain(b) if b is not None else None})
            if raised is not None:
                if r[0] != "exc":
                    ctx.violation("c03.derive_history", "arithmetic", op["f"], "%s raised %s in the session but not on fresh copies" % (op["f"], type(raised).__name__))
                continue
            if r[0] != "ok":
                ctx.violation("c03.derive_history", "arithmetic", op["f"], "%s works on analysed objects but raised %s on fresh copies" % (op["f"], r[1]))
                continue
            if isinstance(res, pe.Obs):
                d = objs.plain_equal(objs.plain(res), r[1])
                if d and np.isfinite(res.value) and objs.plain_close(objs.plain(res), r[1]):
                    ctx.probe("ulp_level_diff")        # alignment-dependent rounding between two processes: tolerated, counted
                    d = None
                if d:
                    ctx.violation("c03.derive_history", "arithmetic", op["f"], "result of %s on analysed=%s/%s operands differs from fresh copies: %s" % (
                        op["f"], analysed[i], analysed[op["j"] % len(pool)] if b is not None else "-", d))
                ctx.sig("derive", op["f"], "analysed" if analysed[i] else "fresh")
                if analysed[i]:
                    ctx.probe("derived_from_analysed")
                if np.isfinite(res.value) and abs(res.value) < 1e30 and all(np.all(np.isfinite(v)) and (not len(v) or np.max(np.abs(v)) < 1e30) for v in res.deltas.values()) \
                        and all(np.all(np.isfinite(c.grad)) and np.max(np.abs(c.grad)) < 1e30 for c in res.covobs.values()):
                    dst = op["dst"] % len(pool)
                    pool[dst] = res
                    analysed[dst] = False
        elif kind == "meta":
            run_meta(ctx, op, model)
    ctx.notes["pool"] = len(pool)


def _relabel(spec, a, b):
    s = copy.deepcopy(spec)
    for part in s["parts"]:
        for ch in part["chains"]:
            idl = ch["idl"]
            if idl and idl[0] == "range":
                _, st, sp, step = idl
                last = st + ((sp - st - 1) // step) * step
                ch["idl"] = ["range", a * st + b, a * last + b + 1, a * step]
            else:
                ch["idl"] = [a * x + b for x in idl]
    return s


def _transform(spec, scale, shift):
    s = copy.deepcopy(spec)
    for part in s["parts"]:
        for ch in part["chains"]:
            ch["xform"] = [scale, shift]
    return s


def _build(spec):
    import pyerrors as pe
    total = None
    for part in spec["parts"]:
        chains = part["chains"]
        data = []
        for c in chains:
            x = objs.chain_data(c)
            if "xform" in c:
                x = x * c["xform"][0] + c["xform"][1]
            data.append(x)
        o = pe.Obs(data, [c["name"] for c in chains], idl=[objs.idl_obj(c["idl"]) for c in chains])
        total = o if total is None else total + o
    return total


def run_meta(ctx, op, model):
    kind = op["kind"]
    spec = copy.deepcopy(op["spec"])
    for part in spec["parts"]:
        part["coef"] = 1.0
    kw = dict(op["kw"])
    emap = {}
    scale = 1.0
    bitwise = False
    spec2 = copy.deepcopy(spec)
    if kind == "relabel":
        spec2 = _relabel(spec, op["a"], op["b"])
        bitwise = True
    elif kind == "shift":
        spec2 = _transform(spec, 1.0, op["c"])
    elif kind == "scale":
        spec2 = _transform(spec, op["c"], 0.0)
        scale = op["c"]
    elif kind == "rename":
        import random
        rnd = random.Random(kernel.H("rename", op["salt"]))
        for part in spec2["parts"]:
            if len(part["chains"]) == 1 and "|" not in part["chains"][0]["name"]:
                continue
            for ch in part["chains"]:
                e = ch["name"].split("|")[0]
                ch["name"] = "%s|%s%d" % (e, rnd.choice(["q", "z", "a", "rr"]), rnd.randrange(1000))
            if len(set(c["name"] for c in part["chains"])) != len(part["chains"]):
                return
    elif kind == "order":
        for part in spec2["parts"]:
            part["chains"] = list(reversed(part["chains"]))
        spec2["parts"] = list(reversed(spec2["parts"]))
    try:
        o1, o2 = _build(spec), _build(spec2)
        if kind == "fft":
            o1.gamma_method(**kw, fft=True)
            o2.gamma_method(**kw, fft=False)
        else:
            o1.gamma_method(**kw)
            o2.gamma_method(**kw)
    except Exception as e:
        ctx.probe("meta_raised_" + type(e).__name__)
        return
    if kind == "order":
        d = objs.plain_equal(objs.plain(o1), objs.plain(o2))
        ctx.compared += 1
        if d and not d.startswith("value") and not d.startswith("deltas") and not d.startswith("r_values"):
            ctx.violation("c03.metamorphic", "gamma_method", "order", "supplying replicas in another order changed the object: %s" % d)
            return
    compare_meta(ctx, kind, o1, o2, emap, scale, bitwise)
    ctx.sig("meta", kind, "texp" if kw.get("tau_exp") else "S", "R%d" % max(len(p["chains"]) for p in spec["parts"]))
    check_globals(ctx, model, "meta")
