"""C18(b): truncated archives.  Filled in together with world B."""


def gen_plan(rng, tier):
    raise NotImplementedError


def execute(plan, ctx):
    raise NotImplementedError
