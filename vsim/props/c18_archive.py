"""C18(b): a truncated json.gz / xml.gz (dobs, pobs) / csv.gz export is rejected rather than partially loaded.
Every byte offset of the archive is tried (exhaustive per archive unless it exceeds the per-run budget)."""
import os
import random

from .. import kernel, seams
from ..world_archive import gen, env

FORMATS = ["json.gz", "json.gz", "dobs.xml.gz", "pobs.xml.gz", "csv.gz", "dict.json.gz"]


def gen_plan(rng, tier):
    fmt = rng.choice(FORMATS)
    plan = {"mode": "archive", "fmt": fmt, "kind": "archive", "seed": rng.getrandbits(32), "ops": [{"sample_seed": rng.getrandbits(30)}]}
    if fmt in ("json.gz", "csv.gz"):
        plan["items"] = [gen.gen_struct(rng, kinds=("obs", "list", "corr") if fmt == "csv.gz" else ("obs", "list", "array", "corr")) for _ in range(rng.randint(1, 2))]
        plan["indent"] = rng.choice([0, 1])
    elif fmt == "dict.json.gz":
        plan["dict"] = gen.gen_dict(rng)
    else:
        from . import c12
        p12 = c12.gen_plan(rng, tier)
        plan["group"] = p12["groups"][0]
    return plan


def execute(plan, ctx):
    import warnings
    import pandas as pd
    import pyerrors as pe
    from . import c11, c12
    warnings.simplefilter("ignore")
    d = ctx.fresh_dir("arch")
    clock = env.Clock()
    pairs, faults = env.install(ctx, clock, env.Identity())
    fmt = plan["fmt"]
    comp = "archive/" + fmt
    with seams.patched(pairs):
        base = os.path.join(d, "arch")
        try:
            if fmt == "json.gz":
                objs_ = [gen.build(s) for s in plan["items"]]
                pe.input.json.dump_to_json(objs_, base, indent=plan["indent"], gz=True)
                path = base + ".json.gz"
                loader = lambda: pe.input.json.load_json(path, verbose=False, gz=True)  # noqa: E731
            elif fmt == "dict.json.gz":
                pe.input.json.dump_dict_to_json(gen.build_dict(plan["dict"]), base, gz=True)
                path = base + ".json.gz"
                loader = lambda: pe.input.json.load_json_dict(path, verbose=False, gz=True)  # noqa: E731
            elif fmt == "csv.gz":
                df, model = c11.make_frame(pe, pd, plan["items"], 2, plan["seed"])
                if len(model["columns"]) == 3:
                    return
                pe.input.pandas.dump_df(df, base, gz=True)
                path = base + ".csv.gz"
                loader = lambda: pe.input.pandas.load_df(path, gz=True)  # noqa: E731
            elif fmt == "dobs.xml.gz":
                obsl = [c12.build_member(plan["group"], m) for m in plan["group"]["members"]]
                pe.input.dobs.write_dobs(obsl, base, "nm", gz=True)
                path = base + ".xml.gz"
                loader = lambda: pe.input.dobs.read_dobs(path, gz=True)  # noqa: E731
            else:
                g = plan["group"]
                g1 = dict(g, chains=[c for c in g["chains"] if c["name"].split("|")[0] == g["ens"][0]], ens=g["ens"][:1])
                obsl = [c12.build_member(g1, m, pobs=True) for m in g["members"]]
                pe.input.dobs.write_pobs(obsl, base, "nm", gz=True)
                path = base + ".xml.gz"
                k = len(g["ens"][0])
                loader = lambda: pe.input.dobs.read_pobs(path, gz=True, separator_insertion=k)  # noqa: E731
        except Exception as e:
            ctx.probe("archive_export_raised_" + type(e).__name__)
            return
        data = seams.real_open(path, "rb").read()
        try:
            loader()
        except Exception as e:
            ctx.probe("complete_archive_not_readable_skipped")
            return
        n = len(data)
        budget = 900 if ctx.tier == "quick" else 4000
        if n <= budget:
            offs = list(range(n))
            exhaustive = True
        else:
            rnd = random.Random(kernel.H("offs", plan["ops"][0]["sample_seed"]))
            offs = sorted(set(list(range(0, 40)) + list(range(n - 200, n)) + [rnd.randrange(n) for _ in range(budget - 240)]))
            exhaustive = False
        for off in reversed(offs):
            os.truncate(path, off)
            ctx.compared += 1
            ctx.fault("crash_truncate")
            try:
                res = loader()
            except Exception:
                ctx.probe("reader_raised")
                ctx.sig(comp, "raised", "tail" if off > n - 12 else ("head" if off < 12 else "body"))
                continue
            ctx.violation("c18.archive_partially_loaded", comp, "cut", "archive of %d bytes cut at byte %d was imported (%s) instead of being rejected" % (n, off, type(res).__name__))
            ctx.sig(comp, "returned")
            break
        if exhaustive:
            ctx.probe("files_enumerated_exhaustively")
            ctx.probe("offsets_in_exhaustive_files", len(offs))
        ctx.probe("archives_cut")
        ctx.log("fault", "archive", fmt, n, len(offs))
