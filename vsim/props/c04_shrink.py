from .. import shrinkers


def shrink(plan):
    yield from shrinkers.drop_pool_elements(plan, "specs", keep=1)
    yield from shrinkers.simplify_obs_specs(plan, "specs")
