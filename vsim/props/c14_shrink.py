import copy

from .. import shrinkers


def shrink(plan):
    yield from shrinkers.drop_pool_elements(plan, "corrs", keep=1)
    for ci, s in enumerate(plan.get("corrs", [])):
        for k, v in (("none", []), ("pad", [0, 0]), ("N", 1), ("kind", "real"), ("sym", False)):
            if s.get(k) != v:
                c = copy.deepcopy(plan)
                c["corrs"][ci][k] = v
                yield c
        if s["T"] > 2:
            c = copy.deepcopy(plan)
            c["corrs"][ci]["T"] = max(2, s["T"] // 2)
            c["corrs"][ci]["none"] = [x for x in s["none"] if x < c["corrs"][ci]["T"]]
            yield c
    yield from shrinkers.simplify_ops(plan, set_values=(("twice", False),))
