"""C11 - JSON serialisation round-trips losslessly and conforms to the shipped schema (world B).

Sessions export structures through every transport built on the json format (strings, plain and gzipped files,
Obs.dump / Corr.dump, dictionary files, csv(.gz) and sqlite data-frame columns) and through pickle, against real
files in a scratch directory and through the seams of world_archive/env.py: simulated wall clock (incl. whole
seconds and backward jumps), user/host identity, write faults (ENOSPC / EIO at the k-th byte), overwrite and
append histories, import in a partner interpreter (another PYTHONHASHSEED and other analysis defaults).
"""
import gzip
import json as pyjson
import os
import pickle

import numpy as np

from .. import seams, wellformed
from ..world_archive import gen, env
from ..world_session import objs

PROP = "c11"
NEEDS_PARTNER = True
GC_SEAM = True          # cyclic garbage collection only at the plan's "gc" operations
TRANSPORTS = ["string", "file", "file", "obs_dump", "corr_dump", "dict", "csv", "sql", "pickle", "obs_pickle"]
NAMES = ["a", "b", "run1", "data.json", "x.json.gz"]
_SCHEMA = None


def schema():
    global _SCHEMA
    if _SCHEMA is None:
        import pyerrors
        p = os.path.join(os.path.dirname(os.path.dirname(os.path.realpath(pyerrors.__file__))), "examples", "json_schema.json")
        with open(p) as f:
            _SCHEMA = pyjson.load(f)
    return _SCHEMA


def gen_plan(rng, tier):
    items = [gen.gen_struct(rng) for _ in range(rng.randint(2, 5))]
    dicts = [gen.gen_dict(rng) for _ in range(rng.randint(1, 2))]
    ops = []
    for _ in range(rng.randint(6, 20)):
        r = rng.random()
        if r < 0.62:
            tr = rng.choice(TRANSPORTS)
            op = {"op": "export", "transport": tr, "what": [rng.randrange(64) for _ in range(rng.choice([1, 1, 1, 2, 3]))], "gz": rng.random() < 0.5,
                  "indent": rng.choice([0, 1, 1, None]), "name": rng.randrange(len(NAMES)), "desc": rng.choice(["", "text", "ünï", "dict"]),
                  "where": rng.choice(["session", "session", "partner"]), "rows": rng.randint(1, 4), "if_exists": rng.choice(["fail", "replace", "append"]),
                  "table": rng.choice(["t1", "t2"]), "gm_first": rng.random() < 0.5}
            if rng.random() < 0.18 and tr in ("file", "obs_dump", "corr_dump", "dict", "pickle", "obs_pickle"):
                op["fault"] = {"frac": round(rng.random(), 4), "err": rng.choice(["ENOSPC", "EIO"])}
            elif rng.random() < 0.06 and tr in ("file", "obs_dump", "corr_dump", "dict"):
                op["intr"] = round(rng.random(), 4)        # the export is interrupted (Ctrl-C) at a pyerrors line event
                if rng.random() < 0.4:
                    op["intr"] = rng.choice([0.9999, 0.995, 0.99, 0.98, 0.97])      # late: data handed to the file object, file object not closed yet
            ops.append(op)
            if "intr" in op and rng.random() < 0.6:
                # the user runs the same command again (and the collector finalises the abandoned file object some time later)
                ops.append({k: v for k, v in op.items() if k != "intr"})
                if rng.random() < 0.5:
                    ops.append({"op": "gc"})
        elif r < 0.64:
            ops.append({"op": "gc"})
        elif r < 0.74:
            ops.append({"op": "reimport", "name": rng.randrange(len(NAMES)), "where": rng.choice(["session", "partner"])})
        elif r < 0.88:
            ops.append({"op": "clock", "how": rng.choice(["advance", "advance", "jump_back", "us0", "far"]), "dt": rng.choice([0.001, 1.1, 59.5, 3600.0, 86400.0 * 3])})
        else:
            ops.append({"op": "ident", "user": rng.choice(["jdoe", "müller", "x", "a.b-c"]), "host": rng.choice(["node01", "login.hpc.example.org", "größe"]),
                        "plat": rng.choice(["Linux-6.1-x86_64", "macOS-14.1-arm64"])})
    return {"items": items, "dicts": dicts, "ops": ops}


# ---------------------------------------------------------------------------------------- partner

def partner_handler(req):
    """other interpreter: other PYTHONHASHSEED, other per-ensemble analysis defaults, no shared history"""
    import pyerrors as pe
    pe.Obs.S_dict["A"] = 3.0
    pe.Obs.tau_exp_global = 0.0
    res = load(pe, req)
    if isinstance(res, dict) and "__frame__" in res:
        res["rows"] = [[c if isinstance(c, (int, float, str, bool, type(None))) else gen.canon(c) for c in row] for row in res["rows"]]
        res["canon"] = True
        return res
    return gen.canon(res)


def load(pe, req):
    tr, path = req["transport"], req["path"]
    if tr in ("file", "obs_dump", "corr_dump"):
        return pe.input.json.load_json(path, verbose=False, gz=req["gz"])
    if tr == "dict":
        return pe.input.json.load_json_dict(path, verbose=False, gz=req["gz"])
    if tr == "csv":
        return frame_plain(pe, pe.input.pandas.load_df(path, gz=req["gz"], auto_gamma=bool(req.get("auto_gamma"))))
    if tr == "sql":
        return frame_plain(pe, pe.input.pandas.read_sql("SELECT * from %s" % req["table"], path, auto_gamma=bool(req.get("auto_gamma"))))
    if tr in ("pickle", "obs_pickle"):
        return pe.load_object(path)
    raise ValueError(tr)


def placeholder_like(x):
    """does the structure hold a string that starts like one of the dictionary writer's placeholders?"""
    import re
    if isinstance(x, str):
        return re.match(r"DICTOBS[0-9]+", x) is not None
    if isinstance(x, dict):
        return any(placeholder_like(v) for v in x.values())
    if isinstance(x, (list, tuple)):
        return any(placeholder_like(v) for v in x)
    return False


def frame_analysable(pe, df):
    """auto_gamma is only asked for when the default analysis exists for every cell (e.g. replicas without a common
    spacing cannot be analysed at all - asking for it then is a caller error)"""
    import copy
    try:
        for c in df.columns:
            for x in df[c]:
                for o in (x if isinstance(x, list) else [x]):
                    if isinstance(o, (pe.Obs, pe.Corr)):
                        copy.deepcopy(o).gm()
    except Exception:
        return False
    return True


def frame_plain(pe, df):
    return {"__frame__": 1, "columns": list(df.columns), "rows": [[cell_plain(df[c][i]) for c in df.columns] for i in range(len(df))]}


def cell_plain(x):
    if isinstance(x, (np.integer,)):
        return int(x)
    if isinstance(x, (np.floating,)):
        return float(x)
    if isinstance(x, np.bool_):
        return bool(x)
    return x


# ---------------------------------------------------------------------------------------- session

def analysis_equal(ctx, comp, disc, a_struct, b_struct):
    """a subsequent analysis of original and import gives identical results"""
    A, B = gen.all_obs(a_struct), gen.all_obs(b_struct)
    if len(A) != len(B):
        return
    for x, y in list(zip(A, B))[:4]:
        if np.isnan(x.value) or np.isnan(y.value):
            continue
        x2, y2 = objs.rebuild(objs.plain(x)), objs.rebuild(objs.plain(y))
        try:
            x2.gamma_method(S=2.0, tau_exp=0.0, N_sigma=1.0)
        except Exception:
            continue
        try:
            y2.gamma_method(S=2.0, tau_exp=0.0, N_sigma=1.0)
        except Exception as e:
            ctx.violation("c11.analysis", comp, disc, "gamma_method on the import raised %s" % type(e).__name__)
            return
        ctx.compared += 1
        if x2.e_windowsize != y2.e_windowsize:
            ctx.probe("window_differs_not_judged")
            continue
        if not abs(x2.dvalue - y2.dvalue) <= 1e-9 * max(x2.dvalue, y2.dvalue) + 1e-300 or not abs(x2.ddvalue - y2.ddvalue) <= 1e-9 * max(x2.ddvalue, y2.ddvalue) + 1e-300:
            ctx.violation("c11.analysis", comp, disc, "error of the import %.17g(%.3g) vs original %.17g(%.3g)" % (y2.dvalue, y2.ddvalue, x2.dvalue, x2.ddvalue))
            return


def validate(ctx, comp, disc, text):
    import jsonschema
    ctx.compared += 1
    try:
        doc = pyjson.loads(text)
    except Exception as e:
        ctx.violation("c11.schema", comp, disc, "document is not valid JSON: %s" % str(e)[:100])
        return
    try:
        jsonschema.validate(doc, schema())
        ctx.probe("schema_validated")
    except jsonschema.ValidationError as e:
        ctx.violation("c11.schema", comp, disc, "schema violation at %s: %s" % ("/".join(str(p) for p in e.absolute_path), e.message[:140]))


def make_frame(pe, pd, structs, rows, seed):
    cols = {"idx": list(range(rows)), "txt": ["row%d" % i for i in range(rows)], "flt": [0.5 * i + 0.25 for i in range(rows)]}
    model = {"columns": ["idx", "txt", "flt"], "rows": [[i, "row%d" % i, 0.5 * i + 0.25] for i in range(rows)]}
    for ci, s in enumerate(structs[:2]):
        t = s["t"]
        if t == "array":
            continue
        cname = "%s%d" % (t, ci)
        cells = []
        dup = (seed + ci) % 3 == 0          # rows holding the SAME data but different tag / flag / replica means
        for r in range(rows):
            s2 = dict(s, seed=s["seed"] + (0 if dup else 100 * r))
            cell = gen.build(s2)
            if dup and r > 0:
                for o in gen.all_obs(cell):
                    o.tag = "row%d" % r
                    if t == "obs":
                        o.reweighted = not o.reweighted
                        for n_ in o.r_values:
                            o.r_values[n_] = o.r_values[n_] * (1 + 1e-6 * r)
                            break
                if t == "corr":
                    cell.tag = "corr row%d" % r
            cells.append(cell)
        cols[cname] = cells
        model["columns"].append(cname)
        for r in range(rows):
            model["rows"][r].append(gen.canon(cells[r]))
    return pd.DataFrame(cols), model


def frame_diff(model, got):
    if not (isinstance(got, dict) and "__frame__" in got):
        return "not a frame"
    if list(model["columns"]) != list(got["columns"]):
        return "columns %r vs %r" % (model["columns"], got["columns"])
    if len(model["rows"]) != len(got["rows"]):
        return "%d rows vs %d" % (len(model["rows"]), len(got["rows"]))
    for r, (mr, gr) in enumerate(zip(model["rows"], got["rows"])):
        for c, (mc, gc) in enumerate(zip(mr, gr)):
            gcc = gc if (got.get("canon") or isinstance(gc, (int, float, str, bool, type(None)))) else gen.canon(gc)
            d = gen.diff(mc, gcc, "row %d col %s" % (r, model["columns"][c]))
            if d:
                return d
    return None


def execute(plan, ctx):
    import warnings
    import pandas as pd
    import pyerrors as pe
    warnings.simplefilter("ignore")
    partner = ctx.clients["partner"]
    d = ctx.fresh_dir("arch")
    clock = env.Clock()
    ident = env.Identity()
    pairs, faults = env.install(ctx, clock, ident)
    structs = [gen.build(s) for s in plan["items"]]
    files = {}          # name index -> model of what a reader must see
    sql_model = {}      # (db, table) -> frame model
    t_start = clock.t
    with seams.patched(pairs):
        for oi, op in enumerate(plan["ops"]):
            ctx.step = oi
            ctx.log("session", op["op"], op.get("transport"), op.get("name"), op.get("how"))
            if op["op"] == "clock":
                if op["how"] == "advance":
                    clock.advance(op["dt"])
                elif op["how"] == "far":
                    clock.advance(op["dt"] * 100)
                elif op["how"] == "jump_back":
                    clock.jump(clock.t - op["dt"] * 10)
                    ctx.fault("clock_jump")
                else:
                    clock.jump(float(int(clock.t) + 1))
                    ctx.fault("clock_us0")
                continue
            if op["op"] == "ident":
                ident.user, ident.host, ident.plat = op["user"], op["host"], op["plat"]
                continue
            if op["op"] == "gc":
                ctx.gc_point()
                continue
            if op["op"] == "reimport":
                paths = sorted(p_ for p_, m_ in files.items() if m_.get("durable"))
                if not paths:
                    continue
                m = files[paths[op["name"] % len(paths)]]
                if m["transport"] == "sql":
                    continue
                ctx.probe("reimport_of_older_file")
                verify(ctx, pe, partner, m, op["where"], "reimport")
                continue
            do_export(ctx, pe, pd, op, plan, structs, d, clock, faults, files, sql_model, partner)
        # final audit: whatever an abandoned file object of an interrupted / failed export still holds is flushed now at the
        # latest; every acknowledged archive must still be what was acknowledged
        ctx.step = len(plan["ops"])
        ctx.gc_point("final")
        for p_ in sorted(p__ for p__, m_ in files.items() if m_.get("durable") and m_["transport"] != "sql"):
            verify(ctx, pe, partner, files[p_], "session", "final_audit")
    ctx.sim_time = clock.t - t_start


def description_for(op):
    return {"": "", "text": "a description", "ünï": "Beschreibung äöü", "dict": {"k": [1, 2, {"x": None}], "s": "t"}}[op["desc"]]


def do_export(ctx, pe, pd, op, plan, structs, d, clock, faults, files, sql_model, partner):
    tr = op["transport"]
    idxs = [w % len(structs) for w in op["what"]]
    objs_ = [structs[i] for i in idxs]
    specs = [plan["items"][i] for i in idxs]
    base = NAMES[op["name"]]
    comp = tr + ("/gz" if op["gz"] and tr in ("file", "dict", "csv", "sql") else "")
    disc = "+".join(sorted(set(s["t"] for s in specs)))
    hist = "fresh"
    desc = description_for(op)
    indent = op["indent"]
    if tr == "string":
        try:
            text = pe.input.json.create_json_string(objs_, desc, indent)
        except Exception as e:
            ctx.violation("c11.no_result", comp, disc, "export raised %s: %s" % (type(e).__name__, str(e)[:120]))
            return
        validate(ctx, comp, disc, text)
        back = pe.input.json.import_json_string(text, verbose=False, full_output=True)
        exp = gen.canon(objs_)
        got = gen.canon(back["obsdata"])
        ctx.compared += 1
        dd = gen.diff(exp, got)
        if dd:
            report_roundtrip(ctx, comp, disc, dd, "", lambda: gen.diff(without_known_corr_tag(exp), got))
        else:
            analysis_equal(ctx, comp, disc, objs_, back["obsdata"])
        meta_check(ctx, comp, back, desc, clock)
        ctx.sig(comp, disc, "indent%s" % indent, op["desc"], "session")
        return
    if tr in ("obs_dump", "obs_pickle"):
        cands = [o for o in gen.all_obs(objs_)]
        if not cands:
            return
        obj = cands[0]
        if op["gm_first"] and not np.isnan(obj.value):
            try:
                obj.gamma_method()
            except Exception:
                pass
        exp = gen.canon([obj]) if tr == "obs_dump" else gen.canon(obj)
        exp = exp[0] if tr == "obs_dump" else exp
    elif tr == "corr_dump":
        cands = [o for o in objs_ if isinstance(o, pe.Corr)]
        if not cands:
            return
        obj = cands[0]
        exp = gen.canon(obj)
    elif tr == "dict":
        dspec = plan["dicts"][op["what"][0] % len(plan["dicts"])]
        obj = gen.build_dict(dspec)
        exp = gen.canon(obj)
        disc = "dict"
    elif tr in ("csv", "sql"):
        obj, model = make_frame(pe, pd, specs, op["rows"], op["what"][0])
        if len(model["columns"]) == 3:
            return
        exp = model
    elif tr == "pickle":
        obj = objs_[0]
        if op["gm_first"]:
            for o in gen.all_obs(obj):
                if not np.isnan(o.value):
                    try:
                        o.gamma_method()
                    except Exception:
                        pass
        exp = gen.canon(obj)
    else:
        obj = objs_
        exp = gen.canon(objs_ if len(objs_) > 1 else objs_[0])

    def run_export(fname, table=None):
        if tr == "file":
            pe.input.json.dump_to_json(obj, fname, desc, indent if indent is not None else 1, op["gz"])
            return fname_resolved(fname, ".json", op["gz"]), op["gz"]
        if tr == "obs_dump":
            obj.dump(os.path.basename(fname), datatype="json.gz", description=desc, path=os.path.dirname(fname))
            return fname_resolved(fname, ".json", True), True
        if tr == "corr_dump":
            obj.dump(os.path.basename(fname), datatype="json.gz", path=os.path.dirname(fname))
            return fname_resolved(fname, ".json", True), True
        if tr == "dict":
            pe.input.json.dump_dict_to_json(obj, fname, description=desc if isinstance(desc, str) else "d", indent=indent if indent is not None else 1, gz=op["gz"])
            return fname_resolved(fname, ".json", op["gz"]), op["gz"]
        if tr == "csv":
            pe.input.pandas.dump_df(obj, fname, gz=op["gz"])
            return fname_resolved(fname, ".csv", op["gz"]), op["gz"]
        if tr == "sql":
            pe.input.pandas.to_sql(obj, table, fname, if_exists=op["if_exists"], gz=op["gz"])
            return fname, op["gz"]
        if tr == "pickle":
            pe.misc.dump_object(obj, os.path.basename(fname), path=os.path.dirname(fname))
            return fname + ".p", False
        if tr == "obs_pickle":
            obj.dump(os.path.basename(fname), datatype="pickle", path=os.path.dirname(fname))
            return fname + ".p", False
        raise ValueError(tr)

    fname = os.path.join(d, base if tr not in ("sql",) else "db_%s.sqlite" % base.replace(".", "_"))
    if tr in ("pickle", "obs_pickle", "csv"):
        fname = os.path.join(d, base.replace(".", "_"))       # dump_df / load_df disagree on names that already end in .gz (DESIGN, noted)
    if tr == "sql":
        op = dict(op, gz=(op["table"] == "t1"))               # one serialisation per table (mixing gz and plain rows is a caller error)
        comp = tr + ("/gz" if op["gz"] else "")
    key = guess_path(tr, fname, op)           # the model of the disk is kept per path
    prev = files.get(key)
    if tr == "sql":
        tkey = (fname, op["table"])
        prevm = sql_model.get(tkey)
        if prevm is not None and op["if_exists"] == "append" and prevm["columns"] != exp["columns"]:
            return
        try:
            path, gzf = run_export(fname, op["table"])
            raised = None
        except Exception as e:
            raised = e
        ctx.compared += 1
        if prevm is not None and op["if_exists"] == "fail":
            if raised is None:
                ctx.violation("c11.sql_history", comp, "fail", "to_sql(if_exists='fail') on an existing table did not raise")
            else:
                ctx.probe("sql_fail_on_existing")
            return
        if raised is not None:
            ctx.violation("c11.no_result", comp, disc, "to_sql raised %s: %s" % (type(raised).__name__, str(raised)[:120]))
            return
        if prevm is not None and op["if_exists"] == "append":
            if prevm["columns"] != exp["columns"]:
                return
            exp = {"columns": exp["columns"], "rows": prevm["rows"] + exp["rows"], "analysable": prevm.get("analysable", False) and frame_analysable(pe, obj)}
            hist = "append"
            ctx.probe("sqlite_append")
            if len(exp["rows"]) > len(prevm["rows"]) + op["rows"] - 1 and prevm.get("appended"):
                ctx.probe("sqlite_append_twice")
            exp["appended"] = True
        elif prevm is not None:
            hist = "replace"
        if "analysable" not in exp:
            exp["analysable"] = frame_analysable(pe, obj)
        sql_model[tkey] = exp
        m = {"transport": "sql", "path": fname, "gz": op["gz"], "table": op["table"], "expect": exp, "durable": True, "frame": True, "objs": None, "comp": comp, "disc": disc,
             "auto_gamma": op["rows"] % 2 == 0 and exp["analysable"]}
        if m["auto_gamma"]:
            ctx.probe("frame_loaded_with_auto_gamma")
        verify(ctx, pe, partner, m, op["where"], hist)
        ctx.sig(comp, disc, hist, op["where"])
        return

    fault = op.get("fault")
    if fault:
        # measure the size of a clean export first (to a scratch name), then arm the fault inside it
        try:
            ppath, _ = run_export(os.path.join(d, "probe_" + base.replace(".", "_")))
            size = os.path.getsize(ppath)
            os.unlink(ppath)
        except Exception:
            return
        faults.arm(int(fault["frac"] * size), fault["err"])
    if op.get("intr") is not None and not fault:
        st, v, nl = objs.run_interruptible(lambda: run_export(os.path.join(d, "probe_" + base.replace(".", "_"))), None)
        if st == "done" and nl > 2:
            try:
                os.unlink(v[0])
            except OSError:
                pass
            k = 1 + int(op["intr"] * (nl - 1))
            st, v, _ = objs.run_interruptible(lambda: run_export(fname), k)
            if st == "interrupted":
                ctx.fault("interrupt_at_line")
                path = guess_path(tr, fname, op)
                gzf = op["gz"] if tr in ("file", "dict") else True
                m = {"transport": tr, "path": path, "gz": gzf, "expect": exp, "durable": False, "frame": False, "objs": None, "comp": comp, "disc": disc}
                if os.path.exists(path):
                    # an export interrupted before it opened the file leaves the previous archive of that name untouched
                    # (decided with the loader of the PREVIOUS export: the one of the interrupted export may reject its kind)
                    old_ok = False
                    if prev is not None and prev.get("durable") and not prev.get("frame") and prev["path"] == path:
                        try:
                            old_ok = gen.diff(without_known_corr_tag(prev["expect"]), gen.canon(load(pe, prev))) is None
                        except Exception:
                            old_ok = False
                    if old_ok:
                        ctx.probe("interrupted_before_open_old_archive_intact")
                        ctx.sig(comp, disc, "interrupt_before_open")
                        return          # the model keeps the previous entry
                    try:
                        got = gen.canon(load(pe, m))
                        dd = gen.diff(exp, got)
                        if dd and "Corr tag 'None' vs None" not in dd and not old_ok:
                            ctx.violation("c11.torn_archive_loaded", comp, "interrupt", "archive left by an interrupted export imported as something else: %s" % dd)
                        elif old_ok:
                            ctx.probe("interrupted_before_open_old_archive_intact")
                            ctx.sig(comp, disc, "interrupt_before_open")
                            return          # the model keeps the previous entry
                        else:
                            ctx.probe("torn_archive_complete_and_equal")
                    except Exception:
                        ctx.probe("torn_archive_rejected")
                files[key] = dict(m, durable=False, after_fault=True)
                ctx.sig(comp, disc, "interrupt")
                return
            if st == "raised":
                ctx.violation("c11.no_result", comp, disc, "export raised %s" % type(v).__name__)
                return
            path, gzf = v
            raised = None
            fired = False
            fault = None
            # fall through to the normal verification with the completed export
            faults.last = None
            faults.armed = None
            if prev is not None:
                hist = "overwrite_after_fault" if prev.get("after_fault") else "overwrite"
            m = {"transport": tr, "path": path, "gz": gzf, "expect": exp, "durable": True, "frame": False, "objs": obj, "size": os.path.getsize(path), "comp": comp, "disc": disc}
            files[key] = m
            verify(ctx, pe, partner, m, op["where"], hist)
            ctx.sig(comp, disc, hist, op["where"], "not_interrupted")
            return
    try:
        path, gzf = run_export(fname)
        raised = None
    except Exception as e:
        raised = e
        path, gzf = guess_path(tr, fname, op), (op["gz"] if tr in ("file", "dict", "csv") else tr not in ("pickle", "obs_pickle"))
    fired = bool(faults.last and faults.last.get("fired"))
    faults.last = None
    faults.armed = None
    if fault and fired:
        hist = "fault"
        ctx.compared += 1
        if raised is None:
            ctx.violation("c11.fault_swallowed", comp, fault["err"], "the write failed with %s at an injected byte but the export returned normally" % fault["err"])
        else:
            ctx.probe("export_raised_on_write_fault")
        # whatever is on disk now: rejected on import, or (only if complete) equal; never something else
        m = {"transport": tr, "path": path, "gz": gzf, "expect": exp, "durable": False, "frame": tr == "csv", "objs": None, "comp": comp, "disc": disc, "auto_gamma": tr == "csv" and op["rows"] % 2 == 0 and frame_analysable(pe, obj)}
        if os.path.exists(path):
            try:
                got = load(pe, m)
                got = got if m["frame"] else gen.canon(got)
                dd = frame_diff(exp, got) if m["frame"] else gen.diff(exp, got)
                if dd:
                    ctx.violation("c11.torn_archive_loaded", comp, fault["err"], "archive left by a failed export imported as something else: %s" % dd)
                else:
                    ctx.probe("torn_archive_complete_and_equal")
            except Exception:
                ctx.probe("torn_archive_rejected")
        files[key] = dict(m, durable=False, after_fault=True)
        ctx.sig(comp, disc, "fault", fault["err"])
        return
    if raised is not None:
        if tr == "dict" and placeholder_like(obj) and "placeholder" in str(raised):
            ctx.probe("placeholder_like_string_refused")       # documented refusal of strings that look like DICTOBS<n>
            return
        ctx.violation("c11.no_result", comp, disc, "export raised %s: %s" % (type(raised).__name__, str(raised)[:160]))
        return
    if prev is not None:
        hist = "overwrite_after_fault" if prev.get("after_fault") else "overwrite"
        if prev.get("size", 0) > os.path.getsize(path):
            ctx.probe("overwrite_shorter_over_longer")
    m = {"transport": tr, "path": path, "gz": gzf, "expect": exp, "durable": True, "frame": tr == "csv", "objs": obj, "size": os.path.getsize(path), "comp": comp, "disc": disc, "auto_gamma": tr == "csv" and op["rows"] % 2 == 0 and frame_analysable(pe, obj)}
    files[key] = m
    # schema of the document on disk
    def read_text():
        raw = seams.real_open(path, "rb").read()
        try:
            return gzip.decompress(raw).decode("utf-8") if gzf else raw.decode("utf-8")
        except Exception as e:
            ctx.violation("c11.schema", comp, disc, "file written by an acknowledged export is not a %s utf-8 document: %s" % ("gzipped" if gzf else "plain", str(e)[:100]))
            return None
    if tr in ("file", "obs_dump", "corr_dump", "dict"):
        text = read_text()
        if text is not None:
            validate(ctx, comp, disc, text)
    elif tr == "csv":
        text = read_text()
        if text is None:
            return
        import csv
        import io
        rows = list(csv.reader(io.StringIO(text)))
        for row in rows[1:2]:
            for cell in row:
                if cell.startswith("{"):
                    validate(ctx, comp, disc, cell)
    verify(ctx, pe, partner, m, op["where"], hist)
    ctx.sig(comp, disc, hist, op["where"], "indent%s" % indent if tr in ("file", "dict") else "-")


def without_known_corr_tag(c):
    """expectation under the KNOWN format-inherent finding (Corr.tag == 'None' comes back as None)"""
    if isinstance(c, dict):
        if "__corr__" in c and c.get("tag") == "None":
            c = dict(c, tag=None)
        return {k: without_known_corr_tag(v) for k, v in c.items()}
    if isinstance(c, list):
        return [without_known_corr_tag(v) for v in c]
    return c


def report_roundtrip(ctx, comp, disc, dd, suffix, redo):
    """report a round-trip difference; if it is the known Corr-tag finding, look behind it for further differences"""
    ctx.violation("c11.roundtrip", comp, disc_of(dd, disc), dd + suffix)
    if "Corr tag 'None' vs None" in dd:
        d2 = redo()
        if d2:
            ctx.violation("c11.roundtrip", comp, disc_of(d2, disc), d2 + suffix)


def disc_of(dd, disc):
    if "Corr tag 'None' vs None" in dd:
        return "corr_tag_string_None"
    for k in ("tag", "reweighted", "idl", "value", "deltas", "r_values", "cov", "grad", "prange", "timeslice", "names", "keys", "shape"):
        if k in dd.split(":")[1] if ":" in dd else k in dd:
            return k
    return disc


def fname_resolved(fname, ext, gz):
    if not fname.endswith(ext) and not fname.endswith(".gz"):
        fname += ext
    if gz and not fname.endswith(".gz"):
        fname += ".gz"
    return fname


def guess_path(tr, fname, op):
    if tr in ("file", "dict"):
        return fname_resolved(fname, ".json", op["gz"])
    if tr in ("obs_dump", "corr_dump"):
        return fname_resolved(fname, ".json", True)
    if tr == "csv":
        return fname_resolved(fname, ".csv", op["gz"])
    if tr in ("pickle", "obs_pickle"):
        return fname + ".p"
    return fname


def meta_check(ctx, comp, back, desc, clock):
    ctx.compared += 1
    if desc != "" and back.get("description") != desc:
        ctx.violation("c11.roundtrip", comp, "description", "description %r came back as %r" % (desc, back.get("description")))


def verify(ctx, pe, partner, m, where, hist):
    comp, disc = m["comp"], m["disc"]
    ctx.compared += 1
    if where == "partner":
        r = partner.call({k: m[k] for k in ("transport", "path", "gz", "auto_gamma") if k in m} | ({"table": m["table"]} if "table" in m else {}))
        if r[0] != "ok":
            ctx.violation("c11.no_result", comp, "partner", "import in another interpreter raised %s: %s" % (r[1], r[2]))
            return
        got = r[1]
        ctx.probe("imported_in_partner")
        back = None
    else:
        try:
            back = load(pe, m)
        except Exception as e:
            ctx.violation("c11.no_result", comp, disc, "import of an acknowledged export raised %s: %s (%s)" % (type(e).__name__, str(e)[:140], hist))
            return
        got = back if m.get("frame") or (isinstance(back, dict) and "__frame__" in back) else gen.canon(back)
        probs = wellformed.any_problems(back) if not isinstance(back, dict) or "__frame__" not in back else []
        if probs:
            ctx.violation("c11.wellformed", comp, probs[0][0], probs[0][1])
    exact = m["transport"] in ("pickle", "obs_pickle")
    isframe = isinstance(m["expect"], dict) and "rows" in m["expect"]
    dd = frame_diff(m["expect"], got) if isframe else gen.diff(m["expect"], got, exact=exact)
    if dd:
        e2 = without_known_corr_tag(m["expect"])
        report_roundtrip(ctx, comp, disc, dd, " [%s, imported in %s]" % (hist, where), lambda: frame_diff(e2, got) if isframe else gen.diff(e2, got, exact=exact))
        return
    ctx.probe("roundtrip_ok")
    if back is not None and m.get("objs") is not None and not m.get("frame"):
        analysis_equal(ctx, comp, disc, m["objs"], back)
        if exact and hist not in ("reimport", "final_audit"):        # later operations may re-analyse the in-memory objects; the file keeps the analysis of export time
            for x, y in zip(gen.all_obs(m["objs"]), gen.all_obs(back)):
                for k in objs.E_KEYS + ["_dvalue", "ddvalue"]:
                    if hasattr(x, k) != hasattr(y, k) or (hasattr(x, k) and kernel_digest(getattr(x, k)) != kernel_digest(getattr(y, k))):
                        ctx.violation("c11.roundtrip", comp, "cached_analysis", "pickled attribute %s differs" % k)
                        return


def kernel_digest(x):
    from .. import kernel
    return kernel.digest(x)
