import copy

from .. import shrinkers


def shrink(plan):
    yield from shrinkers.drop_pool_elements(plan, "specs", keep=1)
    for si, s in enumerate(plan.get("specs", [])):
        if s["n"] > 6:
            c = copy.deepcopy(plan)
            c["specs"][si]["n"] = 6
            c["specs"][si]["idl"] = ["range", 1, 7, 1]
            yield c
        if s["data"]["kind"] != "white":
            c = copy.deepcopy(plan)
            c["specs"][si]["data"]["kind"] = "white"
            yield c
