"""C12 - dobs / pobs XML export and import are mutually inverse (world B).

Lists of observables living on differing configuration subsets, replicas and ensembles are written through the
string and xml(.gz) file transports (same seams as C11: clock, identity, write faults, overwrite histories,
partner interpreter with another hash seed) and read back with every separator_insertion mode.
"""
import gzip
import os
import random

import numpy as np

from .. import kernel, seams, wellformed
from ..world_archive import gen, env
from ..world_session import objs
from . import c11

PROP = "c12"
NEEDS_PARTNER = True
GC_SEAM = True          # cyclic garbage collection only at the plan's "gc" operations
NAMES = ["a", "b", "obs.xml", "y.xml.gz"]


def gen_plan(rng, tier):
    groups = []
    for _ in range(rng.randint(1, 3)):
        nens = rng.choice([1, 1, 2])
        ens = rng.sample(["A", "A2", "B2", "ens_c"], nens)
        chains = []
        for e in ens:
            R = rng.choice([1, 2, 3])
            style = rng.choice(["r", "r", "rep", "_r"])
            for k in rng.sample([0, 1, 2, 3, 10, 11], R):
                n = rng.randint(6, 16)
                chains.append({"name": "%s|%s%d" % (e, style, k), "n": n, "idl": objs.gen_idl(rng, n), "style": style})
        nobs = rng.randint(1, 4)
        members = []
        for i in range(nobs):
            sub = rng.choice(["full", "full", "prefix", "tail", "interleaved", "random", "fewer_reps"])
            members.append({"seed": rng.getrandbits(32), "subset": sub, "kind": rng.choice(["real", "real", "real", "int", "int_zero_free", "mean_hit"]),
                            "cov": rng.choice([None, None, "covA", "sys_b", "Zc"]), "coefs": [rng.choice([1.0, 0.5, -2.0]) for _ in ens], "mag": rng.choice([1.0, 1.0, 1e-3, 1e6]),
                            "nonlinear": rng.random() < 0.3, "frozen": rng.randrange(8) if rng.random() < 0.2 else None})
        if rng.random() < 0.4:
            for m in members:
                if m["cov"]:
                    m["cov"] = members[0]["cov"] or m["cov"]
        groups.append({"chains": chains, "members": members, "ens": ens})
    ops = []
    for _ in range(rng.randint(4, 14)):
        r = rng.random()
        if r < 0.7:
            op = {"op": "export", "group": rng.randrange(8), "fmt": rng.choice(["dobs", "dobs", "dobs", "pobs"]), "transport": rng.choice(["string", "file", "file"]),
                  "gz": rng.random() < 0.6, "sep": rng.choice(["true", "true", "true", "none", "int", "str", "false"]), "name": rng.randrange(len(NAMES)),
                  "where": rng.choice(["session", "session", "partner"]), "enstags": rng.random() < 0.2, "symbol": rng.random() < 0.3, "who": rng.choice([None, None, "someone"])}
            if rng.random() < 0.15 and op["transport"] == "file":
                op["fault"] = {"frac": round(rng.random(), 4), "err": rng.choice(["ENOSPC", "EIO"])}
            elif rng.random() < 0.08 and op["transport"] == "file":
                op["intr"] = rng.choice([round(rng.random(), 4), 0.9999, 0.995, 0.99, 0.98])      # Ctrl-C at a pyerrors line event (late ones: written, not closed)
            ops.append(op)
            if "intr" in op and rng.random() < 0.6:
                ops.append({k: v for k, v in op.items() if k != "intr"})      # the user runs the command again
                if rng.random() < 0.5:
                    ops.append({"op": "gc"})
        elif r < 0.73:
            ops.append({"op": "gc"})
        elif r < 0.85:
            ops.append({"op": "clock", "how": rng.choice(["advance", "jump_back", "us0", "far"]), "dt": rng.choice([0.001, 1.1, 59.5, 3600.0])})
        else:
            ops.append({"op": "ident", "user": rng.choice(["jdoe", "müller", "x"]), "host": rng.choice(["node01", "login.hpc.example.org"]), "plat": "Linux"})
    return {"groups": groups, "ops": ops}


def build_member(group, m, pobs=False):
    import pyerrors as pe
    rnd = random.Random(kernel.H("c12m", m["seed"]))
    chains = group["chains"]
    drop = rnd.randrange(len(chains)) if (m["subset"] == "fewer_reps" and len(chains) > 1 and not pobs) else None
    byens = {}
    for ci, ch in enumerate(chains):
        if ci == drop:
            continue
        full = list(objs.idl_obj(ch["idl"]))
        n = len(full)
        sub = m["subset"] if not pobs else "full"
        if sub == "prefix":
            keep = list(range(max(5, n - rnd.randint(1, 4))))
        elif sub == "tail":
            keep = list(range(min(n - 5, rnd.randint(1, 4)), n))
        elif sub == "interleaved":
            keep = list(range(rnd.randrange(2), n, 2))
            if len(keep) < 5:
                keep = list(range(n))
        elif sub == "random":
            keep = sorted(rnd.sample(range(n), max(5, n - rnd.randint(1, 5))))
        else:
            keep = list(range(n))
        if m["kind"] in ("int", "int_zero_free"):
            x = [float(rnd.randint(-2, 2)) for _ in keep]
            if m["kind"] == "int_zero_free":
                x = [v if v != 0 else 3.0 for v in x]
        elif m["kind"] == "mean_hit":
            x = [float(rnd.choice([1, 2, 3, 3, 3, 4, 5])) for _ in keep]
        else:
            x = [m["mag"] * (1.0 + 0.3 * rnd.gauss(0, 1)) for _ in keep]
        if m.get("frozen") is not None and len(chains) - (drop is not None) > 1 and ci == [k for k in range(len(chains)) if k != drop][m["frozen"] % (len(chains) - (drop is not None))]:
            x = [m["mag"] * 2.5 if m["kind"] == "real" else 7.0] * len(keep)      # a chain frozen at one value (other chains fluctuate)
        elif len(set(x)) == 1:
            x[0] += 1.0
        byens.setdefault(ch["name"].split("|")[0], []).append((np.array(x), ch["name"], [full[k] for k in keep]))
    tot = None
    for ei, e in enumerate(group["ens"]):
        if e not in byens:
            continue
        o = pe.Obs([t[0] for t in byens[e]], [t[1] for t in byens[e]], idl=[t[2] for t in byens[e]])
        if pobs:
            return o
        term = m["coefs"][ei] * o if (len(group["ens"]) > 1 or m["cov"]) else o
        tot = term if tot is None else tot + term
    if m["cov"] and not pobs:
        cd = objs.COVS[m["cov"]]
        co = pe.cov_Obs(cd["means"] if cd["dim"] > 1 else cd["means"][0], np.array(cd["cov"]) if cd["dim"] > 1 else cd["cov"][0][0], m["cov"])
        co = co if isinstance(co, pe.Obs) else co[rnd.randrange(cd["dim"])]
        tot = tot + (m["mag"] * rnd.choice([1.0, 0.25])) * co
    if m.get("nonlinear") and not pobs and m["kind"] == "real":
        tot = tot * tot / m["mag"]           # replica means differ from the central value
        tot._value = tot.value * (1.0 + 1e-3)
    return tot


def expected_name(name, enstag, sep, style, k=None):
    """documented treatment of the replica separator: '|' removed on export, re-inserted per mode on import"""
    raw = name.replace("|", "")
    if sep == "true":
        return raw[:len(enstag)] + "|" + raw[len(enstag):] if raw.startswith(enstag) else raw
    if sep in ("none", "false"):
        return raw
    if sep == "int":
        return raw[:k] + "|" + raw[k:]
    return raw.replace(style, "|" + style)


def sep_arg(sep, group, style):
    if sep == "true":
        return True
    if sep == "none":
        return None
    if sep == "false":
        return False
    if sep == "int":
        return len(group["chains"][0]["name"].split("|")[0])
    return style


def partner_handler(req):
    import pyerrors as pe
    pe.Obs.S_dict["A"] = 3.0
    res = load(pe, req)
    return gen.canon(res)


def load(pe, req):
    kw = {"separator_insertion": req["sep_arg"]}
    fn = pe.input.dobs.read_dobs if req["fmt"] == "dobs" else pe.input.dobs.read_pobs
    if req.get("full"):
        # the same data must come back inside the dictionary of the full output
        r = fn(req["path"], gz=req["gz"], full_output=True, **kw)
        missing = [k for k in ("obsdata", "who", "date", "host", "description", "version", "program") if k not in r]
        if missing:
            raise KeyError("full_output lacks %r" % missing)
        return r["obsdata"]
    return fn(req["path"], gz=req["gz"], **kw)


def adjusted_for_zero_samples(exp):
    """the expectation under the KNOWN format-inherent finding: configurations whose stored number is exactly 0
    (sample equals the central value) or whose sample is exactly 0 are dropped by the importer, everything else
    must still be reproduced.  Returns (adjusted expectation, number of dropped samples)."""
    out, ndrop = [], 0
    for e in exp:
        a = dict(e, idl={}, deltas={}, r_values={}, names=[n for n in e["names"] if n in e["cov"]])
        for n in e["idl"]:
            idl = list(objs.idl_obj(list(e["idl"][n]) if isinstance(e["idl"][n], tuple) else e["idl"][n]))
            x = e["deltas"][n] + e["r_values"][n]
            stored = e["deltas"][n] + (e["r_values"][n] - e["value"])
            back = stored + e["value"]
            keep = [k for k in range(len(idl)) if not (stored[k] == 0.0 or back[k] == 0.0)]
            ndrop += len(idl) - len(keep)
            if not keep:
                continue
            xs = np.array([x[k] for k in keep])
            if len(set(np.round(xs - e["value"], 300))) == 1 and np.all(back[keep] == e["value"]):
                ndrop += len(keep)          # every sample of the replica equals the central value: the whole replica reads as 'not measured'
                continue
            r = float(np.mean(xs))
            kept = [idl[k] for k in keep]
            d = set(b - a_ for a_, b in zip(kept, kept[1:]))
            a["idl"][n] = ("range", kept[0], kept[0] + len(kept) * d.copy().pop(), d.pop()) if len(d) == 1 else kept
            if len(kept) == 1:
                a["idl"][n] = [kept[0]]
            a["deltas"][n] = xs - r
            a["r_values"][n] = r
            a["names"].append(n)
        a["names"] = sorted(a["names"])
        out.append(a)
    return out, ndrop


def execute(plan, ctx):
    import warnings
    import pyerrors as pe
    warnings.simplefilter("ignore")
    partner = ctx.clients["partner"]
    d = ctx.fresh_dir("arch")
    clock = env.Clock()
    ident = env.Identity()
    pairs, faults = env.install(ctx, clock, ident)
    files = {}
    t0 = clock.t
    with seams.patched(pairs):
        for oi, op in enumerate(plan["ops"]):
            ctx.step = oi
            ctx.log("session", op["op"], op.get("fmt"), op.get("transport"), op.get("name"), op.get("how"))
            if op["op"] == "clock":
                if op["how"] == "advance":
                    clock.advance(op["dt"])
                elif op["how"] == "far":
                    clock.advance(op["dt"] * 1000)
                elif op["how"] == "jump_back":
                    clock.jump(clock.t - 10 * op["dt"])
                    ctx.fault("clock_jump")
                else:
                    clock.jump(float(int(clock.t) + 1))
                    ctx.fault("clock_us0")
                continue
            if op["op"] == "ident":
                ident.user, ident.host = op["user"], op["host"]
                continue
            if op["op"] == "gc":
                ctx.gc_point()
                continue
            do_export(ctx, pe, op, plan, d, clock, faults, files, partner)
        # final audit: abandoned file objects of interrupted / failed exports are finalised now at the latest; every
        # acknowledged archive must still be what was acknowledged
        ctx.step = len(plan["ops"])
        ctx.gc_point("final")
        for nm in sorted(files):
            f = files[nm]
            if isinstance(f, dict):
                try:
                    back = load(pe, f["m"])
                except Exception as e:
                    ctx.violation("c12.no_result", f["comp"], f["sep"], "import of an acknowledged export raised %s: %s (final audit)" % (type(e).__name__, str(e)[:140]))
                    continue
                judge(ctx, f["comp"], f["sep"], f["exp"], gen.canon(back), back, f["obsl"], "final_audit", "session")
    ctx.sim_time = clock.t - t0


def do_export(ctx, pe, op, plan, d, clock, faults, files, partner):
    group = plan["groups"][op["group"] % len(plan["groups"])]
    fmt = op["fmt"]
    style = group["chains"][0]["style"]
    sep = op["sep"]
    if fmt == "pobs":
        # pobs: primary observables of one ensemble on identical configurations
        g1 = dict(group, chains=[c for c in group["chains"] if c["name"].split("|")[0] == group["ens"][0]], ens=group["ens"][:1])
        obsl = [build_member(g1, m, pobs=True) for m in group["members"]]
        if sep in ("true", "false"):
            sep = "int"
        group = g1
    else:
        obsl = [build_member(group, m) for m in group["members"]]
    if any(o is None for o in obsl):
        return
    if sep in ("int", "str"):
        styles = set(c["style"] for c in group["chains"])
        enslen = set(len(c["name"].split("|")[0]) for c in group["chains"])
        # "str": every occurrence of the marker gets the separator, names without the marker stay as stored -- defined for
        # mixed naming styles too; only a marker inside an ensemble name (two separators in one name) is avoided
        mixed_ok = sep == "str" and len(styles) > 1 and not any(c["name"].replace("|", "").count(style) > 1 for c in group["chains"])
        if (len(styles) > 1 and not mixed_ok) or (len(enslen) > 1 and sep == "int") or any(style in c["name"].split("|")[0] for c in group["chains"]):
            sep = "true" if fmt == "dobs" else "int"
            if fmt == "pobs" and (len(enslen) > 1):
                return
    if fmt == "pobs" and sep == "none" and len(group["chains"]) > 1:
        sep = "int"
    comp = fmt + "/" + op["transport"] + ("/gz" if op["gz"] and op["transport"] == "file" else "")
    # expectation per documented separator treatment
    enstags = {e: ("T_" + e if op["enstags"] else e) for e in group["ens"]}
    if sep == "true" and op["enstags"]:
        sep_eff = "none_like"      # replica names do not start with the alternative enstag: no insertion (documented prefix rule)
    else:
        sep_eff = sep
    exp = []
    for o in obsl:
        c = gen.canon(o)
        ren = {}
        for n in c["names"]:
            if n in c["cov"]:
                ren[n] = n
            else:
                e = n.split("|")[0]
                ren[n] = n.replace("|", "") if sep_eff == "none_like" else expected_name(n, enstags[e] if fmt == "dobs" else e, sep_eff, style, sep_arg("int", group, style))
        c2 = dict(c, names=sorted(ren[n] for n in c["names"]), idl={ren[n]: v for n, v in c["idl"].items()}, deltas={ren[n]: v for n, v in c["deltas"].items()},
                  r_values={ren[n]: v for n, v in c["r_values"].items()}, tag=None, reweighted=False)
        if fmt == "pobs":
            c2["cov"] = {}
        exp.append(c2)
    sarg = sep_arg(sep, group, style)
    symbol = ["s%d" % i for i in range(len(obsl))] if op["symbol"] else []
    kw_d = {"symbol": symbol, "who": op["who"], "enstags": dict(enstags) if op["enstags"] else None}
    kw_p = {"symbol": symbol}
    hist = "fresh"
    if op["transport"] == "string":
        try:
            if fmt == "dobs":
                text = pe.input.dobs.create_dobs_string(obsl, "nm", **kw_d)
                back = pe.input.dobs.import_dobs_string(text.encode("utf-8"), separator_insertion=sarg)
            else:
                text = pe.input.dobs.create_pobs_string(obsl, "nm", **kw_p)
                p = os.path.join(d, "tmp_pobs.xml")
                with seams.real_open(p, "w", encoding="utf-8") as f:
                    f.write(text)
                back = pe.input.dobs.read_pobs(p, gz=False, separator_insertion=sarg)
        except Exception as e:
            ctx.violation("c12.no_result", comp, sep, "raised %s: %s" % (type(e).__name__, str(e)[:140]))
            return
        judge(ctx, comp, sep, exp, gen.canon(back), back, obsl, hist, "session")
        ctx.sig(comp, sep, "n%d" % len(obsl), "E%d" % len(group["ens"]), kinds(group))
        return
    base = NAMES[op["name"]]
    fname = os.path.join(d, base)

    def run_export(fn):
        if fmt == "dobs":
            pe.input.dobs.write_dobs(obsl, fn, "nm", gz=op["gz"], **kw_d)
        else:
            pe.input.dobs.write_pobs(obsl, fn, "nm", gz=op["gz"], **kw_p)
        return c11.fname_resolved(fn, ".xml", op["gz"])
    fkey = c11.fname_resolved(fname, ".xml", op["gz"])       # the model of the disk is kept per path (x.xml and x.xml.gz are two files)
    fault = op.get("fault")
    if fault:
        try:
            pp = run_export(os.path.join(d, "probe_" + base.replace(".", "_")))
            size = os.path.getsize(pp)
            os.unlink(pp)
        except Exception:
            return
        faults.arm(int(fault["frac"] * size), fault["err"])
    if op.get("intr") is not None and not fault:
        st, v, nl = objs.run_interruptible(lambda: run_export(os.path.join(d, "probe_" + base.replace(".", "_"))), None)
        if st != "done" or nl <= 2:
            return
        os.unlink(v)
        st, v, _ = objs.run_interruptible(lambda: run_export(fname), 1 + int(op["intr"] * (nl - 1)))
        if st == "interrupted":
            ctx.fault("interrupt_at_line")
            path = c11.fname_resolved(fname, ".xml", op["gz"])
            m = {"fmt": fmt, "path": path, "gz": op["gz"], "sep_arg": sarg}
            prev = files.get(fkey)
            if os.path.exists(path):
                old_ok = False
                if isinstance(prev, dict) and prev["m"]["path"] == path:
                    try:
                        old_ok = not diff_with_known(prev["exp"], gen.canon(load(pe, prev["m"])))
                    except Exception:
                        old_ok = False
                if old_ok:
                    ctx.probe("interrupted_before_open_old_archive_intact")
                    return
                try:
                    got = gen.canon(load(pe, m))
                    dd = diff_with_known(exp, got)
                    if dd:
                        ctx.violation("c12.torn_archive_loaded", comp, "interrupt", "archive left by an interrupted export imported as something else: %s" % dd)
                    else:
                        ctx.probe("torn_archive_complete_and_equal")
                except Exception:
                    ctx.probe("torn_archive_rejected")
            files[fkey] = "fault"
            ctx.sig(comp, "interrupt")
            return
        if st == "raised":
            ctx.violation("c12.no_result", comp, sep, "export raised %s" % type(v).__name__)
            return
    try:
        path = run_export(fname)
        raised = None
    except Exception as e:
        raised = e
        path = c11.fname_resolved(fname, ".xml", op["gz"])
    fired = bool(faults.last and faults.last.get("fired"))
    faults.last = None
    faults.armed = None
    m = {"fmt": fmt, "path": path, "gz": op["gz"], "sep_arg": sarg, "full": op["name"] % 2 == 1 and bool(op["symbol"])}
    if fault and fired:
        ctx.compared += 1
        if raised is None:
            ctx.violation("c12.fault_swallowed", comp, fault["err"], "the write failed with %s at an injected byte but the export returned normally" % fault["err"])
        else:
            ctx.probe("export_raised_on_write_fault")
        if os.path.exists(path):
            try:
                got = gen.canon(load(pe, m))
                dd = gen.diff(exp, got, check_tag=False, check_rw=False)
                if dd:
                    adj, nd = adjusted_for_zero_samples(exp)
                    if not nd or gen.diff(adj, got, check_tag=False, check_rw=False, tol=256 * np.finfo(float).eps):
                        ctx.violation("c12.torn_archive_loaded", comp, fault["err"], "archive left by a failed export imported as something else: %s" % dd)
            except Exception:
                ctx.probe("torn_archive_rejected")
        files[fkey] = "fault"
        ctx.sig(comp, "fault")
        return
    if raised is not None:
        ctx.violation("c12.no_result", comp, sep, "export raised %s: %s" % (type(raised).__name__, str(raised)[:140]))
        return
    if fkey in files:
        hist = "overwrite_after_fault" if files[fkey] == "fault" else "overwrite"
    files[fkey] = {"m": m, "exp": exp, "comp": comp, "sep": sep, "obsl": obsl}
    if op["where"] == "partner":
        r = partner.call(m)
        if r[0] != "ok":
            ctx.violation("c12.no_result", comp, "partner", "import in another interpreter raised %s: %s" % (r[1], r[2]))
            return
        ctx.probe("imported_in_partner")
        judge(ctx, comp, sep, exp, r[1], None, obsl, hist, "partner")
    else:
        try:
            back = load(pe, m)
        except Exception as e:
            ctx.violation("c12.no_result", comp, sep, "import of an acknowledged export raised %s: %s" % (type(e).__name__, str(e)[:140]))
            return
        judge(ctx, comp, sep, exp, gen.canon(back), back, obsl, hist, "session")
    ctx.sig(comp, sep, "n%d" % len(obsl), "E%d" % len(group["ens"]), kinds(group), hist, op["where"])


def diff_with_known(exp, got):
    """difference between expectation and import that is not the known zero-sample finding, or None"""
    dd = gen.diff(exp, got, check_tag=False, check_rw=False)
    if dd:
        adj, nd = adjusted_for_zero_samples(exp)
        if nd and not gen.diff(adj, got, check_tag=False, check_rw=False, tol=256 * np.finfo(float).eps):
            return None
    return dd


def kinds(group):
    return "+".join(sorted(set(m["kind"] for m in group["members"]))) + "/" + "+".join(sorted(set(m["subset"] for m in group["members"])))


def judge(ctx, comp, sep, exp, got, back, obsl, hist, where):
    ctx.compared += 1
    if sep == "false":
        # documented: 'None or False: no separator is inserted'
        pass
    dd = gen.diff(exp, got, check_tag=False, check_rw=False, tol=256 * np.finfo(float).eps)
    if dd:
        adj, nd = adjusted_for_zero_samples(exp) if (isinstance(got, list) and len(got) == len(exp)) else (None, 0)
        d2 = gen.diff(adj, got, check_tag=False, check_rw=False, tol=256 * np.finfo(float).eps) if nd else dd
        if nd and d2 is None:
            # exactly the known, format-inherent loss and nothing else
            ctx.violation("c12.roundtrip", comp.split("/")[0], "sample_equals_zero_or_mean", "%s [%s, %s]" % (dd, hist, where))
        else:
            d2 = d2 or dd
            ctx.violation("c12.roundtrip", comp, "sep_false" if sep == "false" else c11.disc_of(d2, sep), "%s [%s, %s]" % (d2, hist, where))
        return
    ctx.probe("roundtrip_ok")
    if back is not None:
        probs = wellformed.any_problems(back)
        if probs:
            ctx.violation("c12.wellformed", comp, probs[0][0], probs[0][1])
        # the subsequent error analysis of the imports equals that of the originals (names may differ by the separator rule only)
        for x, y in list(zip(obsl, back))[:3]:
            try:
                x2 = objs.rebuild(objs.plain(x))
                x2.gamma_method(S=2.0)
            except Exception:
                continue
            try:
                y.gamma_method(S=2.0)
            except Exception as e:
                if sep in ("true", "int", "str"):
                    ctx.violation("c12.analysis", comp, sep, "gamma_method on the import raised %s: %s" % (type(e).__name__, str(e)[:100]))
                continue
            ctx.compared += 1
            if sep in ("true", "int", "str") and sorted(x2.e_names) == sorted(y.e_names):
                if x2.e_windowsize != y.e_windowsize:
                    ctx.probe("window_differs_not_judged")
                elif not abs(x2.dvalue - y.dvalue) <= 1e-9 * max(x2.dvalue, y.dvalue) + 1e-300:
                    ctx.violation("c12.analysis", comp, sep, "error of the import %.17g vs original %.17g" % (y.dvalue, x2.dvalue))
