from .. import shrinkers


def shrink(plan):
    yield from shrinkers.drop_pool_elements(plan, "specs", keep=1)
    yield from shrinkers.simplify_obs_specs(plan, "specs")
    yield from shrinkers.simplify_ops(plan, set_values=(("twice", False), ("via", "method")))
    for i, op in enumerate(plan.get("ops", [])):
        if op.get("op") == "meta":
            import copy
            c = copy.deepcopy(plan)
            c["_tmp"] = [op["spec"]]
            for cand in shrinkers.simplify_obs_specs(c, "_tmp"):
                cand["ops"][i]["spec"] = cand.pop("_tmp")[0]
                yield cand
        if op.get("kw"):
            for k in list(op["kw"]):
                import copy
                c = copy.deepcopy(plan)
                del c["ops"][i]["kw"][k]
                yield c
