"""C17 - file readers return exactly the stored numbers at the right configurations (world A)."""
import os

from ..world_files import drivers, des, run

PROP = "c17"


def gen_plan(rng, tier):
    kind = rng.choice(sorted(drivers.KINDS))
    k = drivers.KINDS[kind]
    p = k.gen(rng, small=False)
    nimg = len(k.images(p)) if not getattr(k, "tree", False) else k.nwriters(p)
    plan = {"kind": kind, "params": p, "des": des.gen_des(rng, nimg), "ops": p.pop("calls")}
    if rng.random() < 0.3:
        plan["des"]["crash_restart"] = {"at": round(rng.uniform(0.05, 0.95), 4), "torn": rng.choice([None, round(rng.uniform(0.05, 0.95), 3)])}
    return plan


def execute(plan, ctx):
    kind = drivers.KINDS[plan["kind"]]
    p = plan["params"]
    d = ctx.fresh_dir("data")
    cr = plan["des"].get("crash_restart")
    if hasattr(kind, "write_all"):
        models = kind.write_all(p, d)          # hdf5: files appear atomically (HDF5 library is real, not intercepted)
        nrecs = None
        ctx.sim_time = float(len(p["cfgs"]))
    else:
        trip = kind.images(p)
        images = [t[0] for t in trip]
        models = {t[1]: t[2] for t in trip}
        # --- the simulated Monte-Carlo programs write the files
        sim = des.Sim(images, plan["des"], d, ctx)
        if cr:
            t_end = sim.end_time()
            sim.run_until(cr["at"] * t_end)
            sim.crash(cr["torn"])
            sim.restart()
            ctx.fault("crash_restart")
        sim.run_all()
        ctx.sim_time = sim.now
        for w, img in enumerate(images):
            with open(sim.path(w), "rb") as f:
                if f.read() != img.total():
                    raise AssertionError("DES self-check: file %s differs from its image" % img.name)
        run.write_complete([], d, kind.extra_files(p))
        nrecs = {t[1]: len(t[0].records) for t in trip}
    for ci, call in enumerate(plan["ops"]):
        ctx.step = ci
        comp = kind.component(p, call)
        disc = call.get("sel", "none")
        exp = kind.expect(p, models, nrecs, call)
        ctx.log("client", "call", comp, disc, call.get("perm_seed"))
        if exp == "undefined":
            ctx.probe("outside_documented_domain")
            continue
        out = run.call_reader(kind, p, d, call, ctx)
        ctx.log("client", "outcome", out[0], out[1] if out[0] == "raise" else sorted(out[1]))
        nrep = len(p["reps"]) if "reps" in p else 1
        ctx.sig(comp, disc, "R%d" % nrep, "perm" if call.get("perm_seed") is not None else "sorted", "cr" if cr else "nocr",
                "names" if "names" in call else "auto", "files" if "files" in call else "scan")
        if exp is None:
            ctx.compared += 1
            if out[0] != "raise":
                ctx.violation("c17.should_raise", comp, disc, "invalid or unsatisfiable selection %r returned a result" % {k: v for k, v in call.items() if k != "perm_seed"})
            else:
                ctx.probe("invalid_selection_rejected")
            continue
        if out[0] == "raise":
            ctx.violation("c17.no_result", comp, disc, "valid request raised %s: %s" % (out[1], out[2]))
            continue
        ok = run.compare(ctx, "c17", comp, disc, exp, out[1])
        if ok and hasattr(kind, "derived") and any(k.startswith("__") for k in out[1]):
            ref = kind.derived(p, call, run.build_expected_obs(exp))
            for k, o in ref.items():
                msg = run.obs_close(o, out[1][k])
                ctx.compared += 1
                if msg:
                    ctx.violation("c17.values", comp, "derived" + k, msg)
        if ok and len(p.get("reps", [])) > 1:
            ctx.probe("multi_replica_compared")
        if ok and any(len(str(r["k"])) != len(str(p["reps"][0]["k"])) for r in p.get("reps", [])):
            ctx.probe("replica_numbers_differing_digits")
