"""Request/response helper processes (pristine reference server, partner interpreter).

A helper sits in a loop reading length-prefixed pickles from fd_in; every request is
served in a *forked child* so that the helper itself never accumulates any history.
"""
import os
import pickle
import struct
import sys
import importlib


def _read_exact(fd, n):
    buf = b""
    while len(buf) < n:
        c = os.read(fd, n - len(buf))
        if not c:
            raise EOFError
        buf += c
    return buf


def send(fd, obj):
    b = pickle.dumps(obj, protocol=4)
    os.write(fd, struct.pack("<Q", len(b)))
    off = 0
    while off < len(b):
        off += os.write(fd, b[off:off + 65536])


def recv(fd):
    n = struct.unpack("<Q", _read_exact(fd, 8))[0]
    return pickle.loads(_read_exact(fd, n))


def serve(fd_in, fd_out, handler):
    """handler(request) -> response; each call in a forked child."""
    while True:
        try:
            req = recv(fd_in)
        except EOFError:
            return
        r, w = os.pipe()
        pid = os.fork()
        if pid == 0:
            os.close(r)
            try:
                try:
                    resp = ("ok", handler(req))
                except BaseException as e:  # noqa
                    resp = ("exc", type(e).__name__, str(e)[:300])
                send(w, resp)
            finally:
                os._exit(0)
        os.close(w)
        try:
            resp = recv(r)
        except EOFError:
            resp = ("exc", "HelperDied", "")
        os.close(r)
        os.waitpid(pid, 0)
        send(fd_out, resp)


class Client:
    def __init__(self, fd_out, fd_in):
        self.fd_out = fd_out
        self.fd_in = fd_in
        self.calls = 0

    def call(self, req):
        self.calls += 1
        send(self.fd_out, req)
        return recv(self.fd_in)


def main():
    # partner interpreter: python -m vsim.helper <module> <fd_in> <fd_out>
    mod = importlib.import_module(sys.argv[1])
    import pyerrors  # noqa: F401  (loaded once; every request is served in a forked child)
    serve(int(sys.argv[2]), int(sys.argv[3]), mod.partner_handler)


if __name__ == "__main__":
    main()
