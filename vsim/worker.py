"""Worker: pristine interpreter that forks one child per run.

Protocol (JSON lines on stdin/stdout):
  {"op":"run","r":<index>,"seed":<VERIF_SEED>,"tier":..}   generate plan from seed, execute
  {"op":"plan","plan":{..},"tier":..}                      execute given plan
  {"op":"quit"}
Answer: one JSON line per request.
"""
import faulthandler
import importlib
import json
import os
import select
import shutil
import signal
import subprocess
import sys
import time
import traceback

from . import kernel, helper


def _child(mod, req, scratch, wfd, clients):
    out = {}
    try:
        tier = req.get("tier", "quick")
        if req["op"] == "run":
            rs = kernel.run_seed(req["seed"], mod.PROP, req["r"])
            plan = mod.gen_plan(kernel.rng_for(rs), tier)
            plan["run_seed"] = rs
        else:
            plan = req["plan"]
        ctx = kernel.Ctx(mod.PROP, tier, scratch)
        ctx.clients = clients
        if getattr(mod, "GC_SEAM", False):
            # the cyclic garbage collector decides when an abandoned file object is finalised (and flushes what it still
            # holds): its timing is behind a seam - never automatic, only at the plan's "gc" operations (ctx.gc_point)
            import gc
            gc.collect()
            gc.disable()
        mod.execute(plan, ctx)
        out = {"ok": True, "violations": ctx.violations, "faults": ctx.faults, "probes": ctx.probes,
               "sigs": sorted(ctx.sigs), "compared": ctx.compared, "digest": ctx.log_digest(),
               "nevents": len(ctx.events), "sim_time": ctx.sim_time, "notes": ctx.notes}
        if ctx.violations or req.get("want_plan"):
            out["plan"] = plan
        if req.get("want_events"):
            out["events"] = ctx.events
    except BaseException as e:  # harness error, not a violation
        out = {"ok": False, "error": type(e).__name__ + ": " + str(e)[:500], "tb": traceback.format_exc()[-3000:]}
    try:
        b = (json.dumps(out, default=repr) + "\n").encode()
        off = 0
        while off < len(b):
            off += os.write(wfd, b[off:off + 65536])
    finally:
        os._exit(0)


def main():
    prop = sys.argv[1]
    wid = sys.argv[2]
    timeout = float(os.environ.get("VSIM_RUN_TIMEOUT", "300"))
    import pyerrors
    assert os.path.realpath(pyerrors.__file__).startswith(os.path.realpath(os.environ.get("VSIM_REPO", "/repo"))), pyerrors.__file__
    mod = importlib.import_module("vsim.props." + prop)
    base = os.environ.get("VSIM_SCRATCH_BASE", "/dev/shm")
    if not (os.path.isdir(base) and os.access(base, os.W_OK)):
        import tempfile
        base = tempfile.gettempdir()
    scratch = os.path.join(base, "vsim.%s.%s" % (os.environ.get("VSIM_MASTER", "x"), wid))
    shutil.rmtree(scratch, ignore_errors=True)
    os.makedirs(scratch)
    helpers = []

    def start_helpers():
        clients = {}
        if getattr(mod, "NEEDS_REF", False):
            a_r, a_w = os.pipe()
            b_r, b_w = os.pipe()
            pid = os.fork()
            if pid == 0:
                os.close(a_w)
                os.close(b_r)
                try:
                    helper.serve(a_r, b_w, mod.ref_handler)
                finally:
                    os._exit(0)
            os.close(a_r)
            os.close(b_w)
            clients["ref"] = helper.Client(a_w, b_r)
            helpers.append(("fork", pid, a_w, b_r))
        if getattr(mod, "NEEDS_PARTNER", False):
            a_r, a_w = os.pipe()
            b_r, b_w = os.pipe()
            env = dict(os.environ)
            env["PYTHONHASHSEED"] = str((int(env.get("PYTHONHASHSEED", "0")) + 4242) % 4294967295)
            p = subprocess.Popen([sys.executable, "-m", "vsim.helper", "vsim.props." + prop, str(a_r), str(b_w)],
                                 env=env, pass_fds=(a_r, b_w), stdout=sys.stderr)
            os.close(a_r)
            os.close(b_w)
            clients["partner"] = helper.Client(a_w, b_r)
            helpers.append(("proc", p, a_w, b_r))
        return clients

    def stop_helpers():
        for kind, h, a, b in helpers:
            try:
                os.close(a)
                os.close(b)
            except OSError:
                pass
            try:
                if kind == "fork":
                    os.kill(h, signal.SIGKILL)
                    os.waitpid(h, 0)
                else:
                    h.kill()
                    h.wait()
            except Exception:
                pass
        helpers.clear()

    clients = start_helpers()
    out = sys.stdout
    for line in sys.stdin:
        req = json.loads(line)
        if req.get("op") == "quit":
            break
        for f in os.listdir(scratch):
            shutil.rmtree(os.path.join(scratch, f), ignore_errors=True)
        r, w = os.pipe()
        sys.stdout.flush()
        pid = os.fork()
        if pid == 0:
            os.close(r)
            faulthandler.dump_traceback_later(max(1.0, timeout - 3), exit=False, file=sys.stderr)
            devnull = os.open(os.devnull, os.O_WRONLY)
            os.dup2(devnull, 1)     # library prints go nowhere
            sys.stdout = open(os.devnull, "w")
            _child(mod, req, scratch, w, clients)
        os.close(w)
        buf = b""
        deadline = time.time() + timeout
        timed_out = False
        while True:
            left = deadline - time.time()
            if left <= 0:
                timed_out = True
                break
            rl, _, _ = select.select([r], [], [], min(left, 5.0))
            if rl:
                c = os.read(r, 1 << 20)
                if not c:
                    break
                buf += c
        os.close(r)
        if timed_out:
            os.kill(pid, signal.SIGKILL)
        os.waitpid(pid, 0)
        if timed_out:
            res = {"ok": False, "error": "TIMEOUT after %.0fs" % timeout}
            stop_helpers()
            clients = start_helpers()
        else:
            try:
                res = json.loads(buf.decode())
            except Exception:
                res = {"ok": False, "error": "child died without result (%d bytes)" % len(buf)}
                stop_helpers()
                clients = start_helpers()
        res["id"] = req.get("id")
        res["r"] = req.get("r")
        out.write(json.dumps(res) + "\n")
        out.flush()
    stop_helpers()
    shutil.rmtree(scratch, ignore_errors=True)


if __name__ == "__main__":
    main()
