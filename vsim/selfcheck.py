"""setup_cmd: verify the environment offline (imports, /repo importable, scratch writable)."""
import os, subprocess, sys
def main():
    env = dict(os.environ, PYTHONPATH="/repo:" + os.path.dirname(os.path.dirname(os.path.abspath(__file__))), MPLBACKEND="Agg")
    out = subprocess.run([sys.executable, "-c", "import pyerrors, os; print(os.path.realpath(pyerrors.__file__))"], env=env, capture_output=True, text=True)
    if out.returncode or not out.stdout.strip().startswith("/repo/"):
        print("pyerrors not importable from /repo:", out.stdout, out.stderr)
        sys.exit(1)
    import tempfile
    if not os.access("/dev/shm", os.W_OK) and not os.access(tempfile.gettempdir(), os.W_OK):
        print("no writable scratch directory (/dev/shm or $TMPDIR)"); sys.exit(1)
    print("setup ok")
if __name__ == "__main__":
    main()
