#!/venv/bin/python
"""Regenerates MANIFEST.json from the table below (keeps it valid at all times)."""
import json, os, sys
V = os.path.dirname(os.path.abspath(__file__))
NA = {
 "C01": "pure function of expression tree and operand data; no schedule, clock, fault, I/O or shared state in any clause (history clause belongs to C03) - not a simulation target",
 "C02": "numerical identity between one gamma_method call's output and a formula of its inputs and effective parameters; where parameters come from and call history are C03's subject",
 "C05": "pure functions of their operands; the reweighted-flag inheritance clause is monitored inside C04's state machine",
 "C06": "pure function of the listed observables and their last analysis; no schedule, fault or I/O",
 "C07": "pure numerical identity (closed-form GLS); the random prior-name suffix never enters a number the property speaks about",
 "C08": "pure numerical identity (implicit-function rule)",
 "C09": "pure numerical identity (inverse function / antiderivative)",
 "C10": "pure numerical identity (matrix identities)",
 "C15": "pure per-timeslice formulas of one argument",
 "C16": "pure numerical identity (eigen-equation, exact spectra)",
 "C19": "pure function of value, error and format specification",
 "C20": "finite constant tables and pure functions: exhaustive table evaluation, not simulation",
}
CLAIMED = {
 "C17": ("exploration", "3", "seeded simulation of the Monte-Carlo writers (discrete-event time, crash+restart) and of the directory listing order; real readers compared number-by-number with a reference model of the stored records",
         "deterministic simulation: stub MC writers + seeded listing permutations/hash seeds + reference model",
         "stub writers' format fidelity (validated against tests/data); docstring numbering rules; sampling, not proof"),
}
CLAIMED["C18"] = ("fault_enumeration", "3", "crash points enumerated: every byte offset of small files (exhaustive per file) and a structured sample of large ones, plus simulated writer crashes with torn chunks, restarts and live reads racing the writers; oracle: the reader raises or returns exactly the model's complete-record prefix",
         "deterministic simulation with fault injection: truncation-offset enumeration, torn writes, crash/restart, live reader vs simulated writers (random and adversarial schedules)",
         "record definition per DESIGN C18; stub writers' format fidelity; hdf5/zlib internals real and not intercepted")
CLAIMED["C03"] = ("exploration", "3", "seeded analysis sessions over process-global parameter state with natural and injected interruptions; every completed analysis must equal bit for bit the analysis in a pristine forked process with the model's effective parameters; metamorphic partners (fft, relabelling, renaming, shift, scale)",
         "deterministic simulation: session histories + interrupt injection (sys.settrace) + pristine-process reference",
         "documented defaults and precedence; bitwise equality between processes on one machine; sampling, not proof")
CLAIMED["C14"] = ("exploration", "3", "seeded operation histories over pools of shared/aliased correlators and argument objects; every result compared entry-wise with a reference model transcribed from the statement; SHA-1 snapshots of all operands/arguments before and after every call; repeated invocation",
         "deterministic simulation: histories over shared/aliased objects + reference model + mutation snapshots",
         "Obs/CObs arithmetic as trusted base; supported partner set per DESIGN C14; sampling, not proof")
CLAIMED["C04"] = ("exploration", "3", "seeded producer/consumer histories (arithmetic with every partner type in both orders, functions, reweight/correlate/merge, fits, roots, integrals, json/dobs/pickle/jackknife round trips, covariance inputs, malformed requests, interrupted operations); the representation invariant is evaluated on every returned object and on all pool objects after every step",
         "deterministic simulation: operation histories + interrupt injection + representation-invariant monitor",
         "invariant transcribed from the statement; ** restricted to real observables/numbers; sampling, not proof")
CLAIMED["C13"] = ("exploration", "3", "seeded sessions of jackknife/bootstrap exports and imports with global-RNG perturbations in between; every default (name-seeded) random-number table is recomputed by a partner interpreter under another PYTHONHASHSEED and RNG state; exact leave-one-out / resampled-mean oracles",
         "deterministic simulation: RNG state and process identity as part of the history + partner interpreter",
         "the name-seeding clause is the simulator-specific one, the resampling identities ride along as sampled inputs")
CLAIMED["C11"] = ("exploration", "3", "seeded exporter/importer sessions over every json-based transport (strings, plain/gz files, Obs.dump/Corr.dump, dict files, csv and sqlite data-frame columns) and pickle, against real files through seams for the wall clock, user/host identity and write faults (ENOSPC/EIO at the k-th byte), with overwrite/append histories and import in a partner interpreter; every document validated against the shipped schema; deep comparison of every re-imported attribute and of the subsequent analysis",
         "deterministic simulation with fault injection: archive world (storage faults, interrupts at line events, clock, identity, second interpreter, garbage collector behind a seam with scheduled gc operations and a final audit) + reference model of the exported objects",
         "pandas csv writer and sqlite file I/O real and not intercepted; tolerance 64 eps for the delta+offset representation; sampling, not proof")
CLAIMED["C12"] = ("exploration", "3", "seeded sessions exporting lists of observables on differing configuration subsets / replicas / ensembles through dobs and pobs strings and xml(.gz) files with every separator_insertion mode, under the archive-world seams (clock, identity, write faults, overwrites) and with import in a partner interpreter under another hash seed; deep comparison incl. documented separator treatment and the subsequent analysis",
         "deterministic simulation with fault injection: archive world (storage faults, interrupts, scheduled garbage collection, final audit) + partner interpreter (hash-seed dependence of list(set(names))) + reference model",
         "separator rules transcribed from the docstrings; one known format-inherent finding (zero samples) is keyed and reported as KNOWN-FINDING")
PENDING = {}
def main():
    checks = []
    for pid, (cat, ref, text, tech, note) in sorted(CLAIMED.items()):
        checks.append({"property_id": pid, "quick_cmd": "bin/check %s quick" % pid, "thorough_cmd": "bin/check %s thorough" % pid,
                       "evidence_file": "evidence/%s.json" % pid, "replay_cmd_template": "bin/replay {path}", "engine": "vsim",
                       "level_claimed": {"category": cat, "text": text, "design_ref": "DESIGN.md section " + ref}, "level_note": note, "technique": tech})
    na = [{"property_id": k, "reason": v} for k, v in sorted(NA.items())]
    na += [{"property_id": k, "reason": v} for k, v in sorted(PENDING.items()) if k not in CLAIMED]
    m = {"version": 1,
         "setup_cmd": "/venv/bin/python -c \"import numpy, scipy, h5py, lxml, rapidjson, pandas, jsonschema, autograd\" && /venv/bin/python -m vsim.selfcheck",
         "hooks": {"guard": "PYERRORS_VERIF_SIM", "enable": "no source hooks: all seams are module-level names rebound from outside (pyerrors.input.*.os/open/gzip/datetime/getpass/socket/platform, pyerrors.input.hadrons.Path); the cyclic garbage collector is switched off and run at planned points inside the check processes only; checks import pyerrors from /repo's working tree via PYTHONPATH",
                   "baseline_off_cmd": "cd /repo && /venv/bin/python -m pytest -q -p no:cacheprovider --timeout=900", "source_commits": [], "add_only": True},
         "engines": [{"name": "vsim", "path": "vsim/", "serves_properties": sorted(CLAIMED), "kind_free_text": "deterministic simulator: seeded plans as JSON data, fork-per-run pristine workers under fixed PYTHONHASHSEEDs, stub writers + seams (os/open/gzip/clock/user/host), fault injection, ddmin minimisation, replay files"}],
         "checks": checks, "not_applicable": na,
         "notes": "See DESIGN.md. known_findings.json lists genuine defects (fixed or recorded)."}
    json.dump(m, open(os.path.join(V, "MANIFEST.json"), "w"), indent=1)
    import jsonschema
    jsonschema.validate(m, json.load(open("/root/.vp/MANIFEST.schema.json")))
    print("MANIFEST ok:", len(checks), "checks", len(na), "n/a")
if __name__ == "__main__":
    main()


def write_findings_text():
    """plain-text view of known_findings.json (the checks read the JSON; this is for readers)"""
    f = json.load(open(os.path.join(V, "known_findings.json")))["findings"]
    lines = ["# generated from known_findings.json by tools_manifest.py - do not edit", ""]
    for e in f:
        if e["status"] == "known":
            lines.append("known: property=%s key=%s/%s/%s input=%s :: %s" % (e["property"], e["clause"], e["component"], e["disc"], e.get("input", ""), e["what"]))
    lines.append("")
    for e in f:
        if e["status"] == "fixed":
            lines.append(e["line"])
    open(os.path.join(V, "KNOWN_FINDINGS.txt"), "w").write("\n".join(lines) + "\n")


write_findings_text()
